package main

import (
	"fmt"
	"go/ast"
	"go/constant"
	"go/printer"
	"go/token"
	"go/types"
	"os"
	"path/filepath"
	"sort"
	"strings"

	"golang.org/x/tools/go/ast/astutil"
	"golang.org/x/tools/go/packages"
	"golang.org/x/tools/go/ssa"
	"golang.org/x/tools/go/ssa/ssautil"
)

type Program struct {
	repo      string
	ssaProg   *ssa.Program
	pkgs      []*packages.Package
	allPkgs   []*types.Package
	contracts *Contracts
	funcs     map[string]*ssa.Function
	cellCache map[*ssa.Alloc]bool
	effCache  map[*ssa.Function]*effects
	effBusy   map[*ssa.Function]bool
	typeTags  map[string]int
	globIDs   map[string]int
	globInfo  map[*ssa.Global]*globalInfo
	fset      *token.FileSet
	assumed   []string
	missing   []*Obligation
	funcValues []*ssa.Function
	recSpec   map[string]bool
	curCaller string
	specComps     map[string][]string
	specCompSorts map[string]string
}

type globalInfo struct {
	bytes   []byte
	pattern string
	scanned bool
}

type effects struct {
	comps  map[string]string // component -> full sort
	allocs bool
}

var repoPkgs = []string{"./stack", "./internal", "./stack/webstack"}

func loadProgram(repo string, libdir string) (*Program, error) {
	cfg := &packages.Config{
		Mode:       packages.LoadAllSyntax,
		Dir:        repo,
		BuildFlags: []string{"-tags=verif"},
		Env:        append(os.Environ(), "GOFLAGS=-mod=mod", "GOPROXY=off", "GOSUMDB=off", "GOTOOLCHAIN=local"),
	}
	pkgs, err := packages.Load(cfg, repoPkgs...)
	if err != nil {
		return nil, err
	}
	for _, p := range pkgs {
		if len(p.Errors) > 0 {
			return nil, fmt.Errorf("package %s: %v", p.PkgPath, p.Errors[0])
		}
	}
	prog, _ := ssautil.AllPackages(pkgs, ssa.NaiveForm)
	prog.Build()
	P := &Program{repo: repo, ssaProg: prog, pkgs: pkgs, contracts: newContracts(), funcs: map[string]*ssa.Function{},
		cellCache: map[*ssa.Alloc]bool{}, effCache: map[*ssa.Function]*effects{}, effBusy: map[*ssa.Function]bool{}, typeTags: map[string]int{}, globIDs: map[string]int{}, globInfo: map[*ssa.Global]*globalInfo{}}
	if len(pkgs) > 0 {
		P.fset = pkgs[0].Fset
	}
	for fn := range ssautil.AllFunctions(prog) {
		if fn.Pkg == nil {
			continue
		}
		P.funcs[P.funcKey(fn)] = fn
	}
	seen := map[*types.Package]bool{}
	for _, p := range pkgs {
		if !seen[p.Types] {
			seen[p.Types] = true
			P.allPkgs = append(P.allPkgs, p.Types)
		}
		// contract files of the package
		for _, f := range p.GoFiles {
			if strings.HasPrefix(filepath.Base(f), "verif_contracts") {
				if err := P.contracts.parseFile(f, p.PkgPath); err != nil {
					return nil, err
				}
			}
		}
		for _, f := range p.IgnoredFiles {
			_ = f
		}
	}
	// library contracts
	libs, _ := filepath.Glob(filepath.Join(libdir, "*.contracts"))
	sort.Strings(libs)
	for _, f := range libs {
		if err := P.contracts.parseFile(f, ""); err != nil {
			return nil, err
		}
	}
	return P, nil
}

func (P *Program) funcKey(fn *ssa.Function) string {
	if fn.Pkg == nil {
		if fn.Object() != nil && fn.Object().Pkg() != nil {
			return fn.Object().Pkg().Path() + "." + fn.RelString(fn.Object().Pkg())
		}
		return fn.String()
	}
	return fn.Pkg.Pkg.Path() + "." + fn.RelString(fn.Pkg.Pkg)
}

func (P *Program) inRepo(fn *ssa.Function) bool {
	if fn == nil || fn.Pkg == nil {
		return false
	}
	return strings.HasPrefix(fn.Pkg.Pkg.Path(), "github.com/maruel/panicparse") && len(fn.Blocks) > 0
}

// isCell: a local of scalar type used only as address of loads and stores.
func (P *Program) isCell(a *ssa.Alloc) bool {
	if v, ok := P.cellCache[a]; ok {
		return v
	}
	ok := !a.Heap && isScalarType(a.Type().(*types.Pointer).Elem())
	if ok && a.Referrers() != nil {
		for _, r := range *a.Referrers() {
			switch x := r.(type) {
			case *ssa.Store:
				if x.Addr != a || x.Val == a {
					ok = false
				}
			case *ssa.UnOp:
				if x.Op != token.MUL {
					ok = false
				}
			case *ssa.DebugRef:
			default:
				ok = false
			}
		}
	}
	P.cellCache[a] = ok
	return ok
}

// leafComps lists (component, full sort) of all scalar leaves of a type.
func leafComps(t types.Type, out map[string]string) {
	if isScalarType(t) {
		out[elemComp(t)] = "(Array Addr " + sortOfType(t) + ")"
		return
	}
	switch u := t.Underlying().(type) {
	case *types.Struct:
		for i := 0; i < u.NumFields(); i++ {
			ft := u.Field(i).Type()
			if isScalarType(ft) {
				out[fieldComp(t, i)] = "(Array Addr " + sortOfType(ft) + ")"
			} else {
				leafComps(ft, out)
			}
		}
	case *types.Array:
		leafComps(u.Elem(), out)
	}
}

func (P *Program) zeroComps(t types.Type) []string {
	m := map[string]string{}
	leafComps(t, m)
	var out []string
	for k := range m {
		out = append(out, k)
	}
	return out
}

// storeCompsSorted returns the components a store through addr may write.
func (P *Program) storeCompMap(addr ssa.Value, t types.Type, out map[string]string) {
	if !isScalarType(t) {
		leafComps(t, out)
		return
	}
	if fa, ok := addr.(*ssa.FieldAddr); ok {
		stt := fa.X.Type().Underlying().(*types.Pointer).Elem()
		out[fieldComp(stt, fa.Field)] = "(Array Addr " + sortOfType(t) + ")"
		return
	}
	out[elemComp(t)] = "(Array Addr " + sortOfType(t) + ")"
}

func (P *Program) storeComps(addr ssa.Value, t types.Type) []string {
	m := map[string]string{}
	P.storeCompMap(addr, t, m)
	var out []string
	for k := range m {
		out = append(out, k)
	}
	return out
}

func mapCompSorts(t types.Type, out map[string]string) {
	mt := t.Underlying().(*types.Map)
	ks := sortOfType(mt.Key())
	out[mapDomComp(t)] = "(Array Addr (Array " + ks + " Bool))"
	out[mapLenComp(t)] = "(Array Addr Int)"
	vt := mt.Elem()
	if isScalarType(vt) {
		out[mapValComp(t)] = "(Array Addr (Array " + ks + " " + sortOfType(vt) + "))"
	} else if stt, ok := vt.Underlying().(*types.Struct); ok {
		for i := 0; i < stt.NumFields(); i++ {
			out[strings.TrimSuffix(mapValComp(t), "|")+"#"+stt.Field(i).Name()+"|"] = "(Array Addr (Array " + ks + " " + sortOfType(stt.Field(i).Type()) + "))"
		}
	}
}

// funcEffects: syntactic over-approximation of the components a function in
// the repository may write, transitively.
func (P *Program) funcEffects(fn *ssa.Function) *effects {
	if e, ok := P.effCache[fn]; ok {
		return e
	}
	if P.effBusy[fn] {
		return &effects{comps: map[string]string{}}
	}
	P.effBusy[fn] = true
	savedCaller := P.curCaller
	if fn.Pkg != nil {
		P.curCaller = fn.RelString(fn.Pkg.Pkg)
	}
	defer func() { P.curCaller = savedCaller }()
	e := &effects{comps: map[string]string{}}
	changed := true
	for iter := 0; changed && iter < 5; iter++ {
		before := len(e.comps)
		beforeA := e.allocs
		for _, b := range fn.Blocks {
			for _, ins := range b.Instrs {
				switch x := ins.(type) {
				case *ssa.Store:
					if a, ok := x.Addr.(*ssa.Alloc); ok && P.isCell(a) {
						continue
					}
					if _, ok := x.Addr.(*ssa.Global); ok {
						continue
					}
					P.storeCompMap(x.Addr, x.Val.Type(), e.comps)
				case *ssa.MapUpdate:
					mapCompSorts(x.Map.Type(), e.comps)
				case *ssa.Alloc:
					if !P.isCell(x) {
						e.allocs = true
						leafComps(x.Type().(*types.Pointer).Elem(), e.comps)
					}
				case *ssa.MakeSlice:
					e.allocs = true
					leafComps(elemTypeOf(x.Type()), e.comps)
				case *ssa.MakeMap:
					e.allocs = true
					mapCompSorts(x.Type(), e.comps)
				case *ssa.MakeClosure, *ssa.MakeInterface:
					e.allocs = true
				case *ssa.Convert:
					if kindOf(x.Type()) == KSlice && kindOf(x.X.Type()) == KStr {
						e.allocs = true
						leafComps(elemTypeOf(x.Type()), e.comps)
					}
					if kindOf(x.Type()) == KStr {
						e.allocs = true
					}
				case ssa.CallInstruction:
					ce := P.callEffects(x, nil)
					for k, v := range ce.comps {
						e.comps[k] = v
					}
					if ce.allocs {
						e.allocs = true
					}
				}
			}
		}
		changed = len(e.comps) != before || e.allocs != beforeA
		if !P.recursive(fn) {
			break
		}
	}
	delete(P.effBusy, fn)
	P.effCache[fn] = e
	return e
}

func (P *Program) recursive(fn *ssa.Function) bool { return true }

// callEffects: effects of one call instruction.
func (P *Program) callEffects(ci ssa.CallInstruction, vc *VC) *effects {
	c := ci.Common()
	if vc != nil && vc.fn != nil {
		saved := P.curCaller
		P.curCaller = vc.fn.RelString(vc.fn.Pkg.Pkg)
		defer func() { P.curCaller = saved }()
	}
	e := &effects{comps: map[string]string{}}
	if c.IsInvoke() {
		key := "(" + typeName(c.Value.Type()) + ")." + c.Method.Name()
		return P.externEffects(key, P.contracts.Funcs[key], c)
	}
	switch callee := c.Value.(type) {
	case *ssa.Builtin:
		switch callee.Name() {
		case "append":
			e.allocs = true
			leafComps(elemTypeOf(c.Args[0].Type()), e.comps)
		case "copy":
			leafComps(elemTypeOf(c.Args[0].Type()), e.comps)
		case "delete":
			mapCompSorts(c.Args[0].Type(), e.comps)
		}
		return e
	case *ssa.Function:
		return P.staticEffects(callee, c)
	case *ssa.MakeClosure:
		return P.staticEffects(callee.Fn.(*ssa.Function), c)
	}
	// load of a cell that holds a closure
	if fn := P.resolveFuncValue(c.Value); fn != nil {
		return P.staticEffects(fn, c)
	}
	// dynamic call through a function value: the union of the effects of every
	// function of the repository with that signature whose value is taken
	// somewhere (closed world: the callers are unexported)
	e.allocs = true
	if sig, ok := c.Value.Type().Underlying().(*types.Signature); ok {
		for _, cand := range P.funcValuesOfSig(sig) {
			ce := P.funcEffects(cand)
			for k, v := range ce.comps {
				e.comps[k] = v
			}
		}
	}
	return e
}

// funcValuesOfSig lists the functions of the repository used as values
// (closures, function-typed operands) whose signature is identical to sig.
func (P *Program) funcValuesOfSig(sig *types.Signature) []*ssa.Function {
	if P.funcValues == nil {
		P.funcValues = []*ssa.Function{}
		seen := map[*ssa.Function]bool{}
		var all []*ssa.Function
		var add func(f *ssa.Function)
		add = func(f *ssa.Function) {
			all = append(all, f)
			for _, a := range f.AnonFuncs {
				add(a)
			}
		}
		for _, f := range P.funcs {
			add(f)
		}
		for _, f := range all {
			if !P.inRepo(f) {
				continue
			}
			for _, b := range f.Blocks {
				for _, ins := range b.Instrs {
					if mc, ok := ins.(*ssa.MakeClosure); ok {
						if fn := mc.Fn.(*ssa.Function); !seen[fn] {
							seen[fn] = true
							P.funcValues = append(P.funcValues, fn)
						}
					}
					var ops []*ssa.Value
					isCall := false
					var callee ssa.Value
					if ci, ok := ins.(ssa.CallInstruction); ok {
						isCall = true
						callee = ci.Common().Value
					}
					for _, op := range ins.Operands(ops) {
						if op == nil || *op == nil {
							continue
						}
						if fn, ok := (*op).(*ssa.Function); ok && !(isCall && callee == *op) && P.inRepo(fn) && !seen[fn] {
							seen[fn] = true
							P.funcValues = append(P.funcValues, fn)
						}
					}
				}
			}
		}
	}
	var out []*ssa.Function
	for _, f := range P.funcValues {
		if types.Identical(f.Signature, sig) {
			out = append(out, f)
		}
	}
	return out
}

func (P *Program) resolveFuncValue(v ssa.Value) *ssa.Function {
	switch x := v.(type) {
	case *ssa.Function:
		return x
	case *ssa.MakeClosure:
		return x.Fn.(*ssa.Function)
	case *ssa.UnOp:
		if a, ok := x.X.(*ssa.Alloc); ok && x.Op == token.MUL && a.Referrers() != nil {
			var found *ssa.Function
			n := 0
			for _, r := range *a.Referrers() {
				if s, ok := r.(*ssa.Store); ok && s.Addr == a {
					n++
					found = P.resolveFuncValue(s.Val)
				}
			}
			if n == 1 {
				return found
			}
		}
	}
	return nil
}

func (P *Program) staticEffects(callee *ssa.Function, c *ssa.CallCommon) *effects {
	if P.inRepo(callee) {
		return P.funcEffects(callee)
	}
	key := P.funcKey(callee)
	fc := P.contracts.Funcs[key]
	if P.curCaller != "" {
		if o := P.contracts.Funcs[key+"@"+P.curCaller]; o != nil {
			fc = o
		}
	}
	if fc == nil && len(c.Args) > 0 && callee.Signature.Recv() != nil {
		// receiver-provenance keyed contracts (regexps) are pure
		return &effects{comps: map[string]string{}, allocs: true}
	}
	return P.externEffects(key, fc, c)
}

// externEffects derives the written components of an external function from
// its contract's modifies clauses.
func (P *Program) externEffects(key string, fc *FuncContract, c *ssa.CallCommon) *effects {
	e := &effects{comps: map[string]string{}}
	if fc == nil {
		return e
	}
	if fc.Opts["allocates"] != "" {
		e.allocs = true
	}
	for _, mc := range fc.Modifies {
		for _, mi := range mc.Mods {
			if mi.Elems != nil {
				// elems(p): the element component of the named parameter
				if call, ok := mi.Elems.(*ECall); ok && call.Fn == "sliceof" && len(call.Args) == 1 {
					if id, ok := call.Args[0].(*EIdent); ok {
						names := fc.ExtNames
						for i, n := range names {
							if n == id.Name && i < len(c.Args) {
								if mk, ok := c.Args[i].(*ssa.MakeInterface); ok {
									leafComps(elemTypeOf(mk.X.Type()), e.comps)
								}
							}
						}
					}
				}
				if id, ok := mi.Elems.(*EIdent); ok {
					args := c.Args
					names := fc.ExtNames
					if c.IsInvoke() {
						names = names[1:]
					}
					for i, n := range names {
						if n == id.Name && i < len(args) {
							leafComps(elemTypeOf(args[i].Type()), e.comps)
						}
					}
				}
				continue
			}
			for _, pat := range mi.Comps {
				if strings.HasPrefix(pat, "ghost:") {
					g := P.contracts.Ghosts[pat[6:]]
					if g == nil {
						panic(unsupported("unknown ghost %s", pat))
					}
					srt, _ := ghostSort(g.Ret)
					ks := "Int"
					if len(g.Params) > 0 && g.Params[0].Type == "addr" {
						ks = "Addr"
					}
					e.comps["|G:"+g.Name+"|"] = "(Array " + ks + " " + srt + ")"
				} else {
					panic(unsupported("extern modifies pattern %s (use elems(x) or ghost:name)", pat))
				}
			}
		}
	}
	return e
}

// effectsOf is used at call sites during symbolic execution.
func (P *Program) effectsOf(key string, fc *FuncContract, callee *ssa.Function, args []Val, vc *VC) *effects {
	if callee != nil && P.inRepo(callee) {
		return P.funcEffects(callee)
	}
	return nil
}

func (P *Program) compMatches(pat, comp string, pkg *types.Package) bool {
	if strings.HasPrefix(pat, "ghost:") {
		return comp == "|G:"+pat[6:]+"|"
	}
	for _, pre := range []string{"E:", "MD:", "MV:", "ML:", "G:"} {
		if strings.HasPrefix(pat, pre) {
			return comp == "|"+pat+"|"
		}
	}
	if strings.Count(pat, ".") == 1 && pkg != nil {
		pat = pkg.Name() + "." + pat
	}
	if strings.HasSuffix(pat, ".*") {
		return strings.HasPrefix(comp, "|H:"+strings.TrimSuffix(pat, "*"))
	}
	return comp == "|H:"+pat+"|"
}

func (P *Program) typeTag(t types.Type) int {
	s := types.TypeString(t, nil)
	if n, ok := P.typeTags[s]; ok {
		return n
	}
	n := len(P.typeTags) + 1
	P.typeTags[s] = n
	return n
}

func (P *Program) globalID(name string) int {
	if n, ok := P.globIDs[name]; ok {
		return n
	}
	n := len(P.globIDs) + 1
	P.globIDs[name] = n
	return n
}

// globalInfo extracts the initial value of byte-slice "constants" from the
// package initialiser.
func (P *Program) globalInfo(g *ssa.Global) *globalInfo {
	if gi, ok := P.globInfo[g]; ok {
		return gi
	}
	gi := &globalInfo{}
	P.globInfo[g] = gi
	init := g.Pkg.Func("init")
	if init == nil {
		return gi
	}
	for _, b := range init.Blocks {
		for _, ins := range b.Instrs {
			st, ok := ins.(*ssa.Store)
			if !ok || st.Addr != g {
				continue
			}
			if cv, ok := st.Val.(*ssa.Convert); ok {
				if c, ok := cv.X.(*ssa.Const); ok && c.Value != nil && c.Value.Kind() == constant.String {
					gi.bytes = []byte(constant.StringVal(c.Value))
				}
			}
			if call, ok := st.Val.(*ssa.Call); ok && len(call.Call.Args) == 1 {
				if c, ok := call.Call.Args[0].(*ssa.Const); ok && c.Value != nil && c.Value.Kind() == constant.String {
					gi.pattern = constant.StringVal(c.Value)
				}
			}
		}
	}
	return gi
}

// caseLabel returns the text of the innermost switch-case label enclosing a
// source position ("" if none).
func (P *Program) caseLabel(pos token.Pos) string {
	if !pos.IsValid() {
		return ""
	}
	for _, pkg := range P.pkgs {
		for _, f := range pkg.Syntax {
			if f.Pos() <= pos && pos <= f.End() {
				path, _ := astutil.PathEnclosingInterval(f, pos, pos)
				for _, n := range path {
					if cc, ok := n.(*ast.CaseClause); ok {
						if cc.List == nil {
							return "default"
						}
						var parts []string
						for _, e := range cc.List {
							var b strings.Builder
							printer.Fprint(&b, P.fset, e)
							parts = append(parts, b.String())
						}
						return strings.Join(parts, ",")
					}
					if _, ok := n.(*ast.FuncLit); ok {
						return ""
					}
				}
				return ""
			}
		}
	}
	return ""
}

// resolveType evaluates a type expression in the scope of a package.
func (P *Program) resolveType(s string, pkg *types.Package) types.Type {
	switch s {
	case "int", "":
		return types.Typ[types.Int]
	case "bool":
		return types.Typ[types.Bool]
	case "string":
		return types.Typ[types.String]
	case "byte", "uint8":
		return types.Typ[types.Uint8]
	case "uint64":
		return types.Typ[types.Uint64]
	case "int64":
		return types.Typ[types.Int64]
	case "uint":
		return types.Typ[types.Uint]
	case "int8":
		return types.Typ[types.Int8]
	case "int16":
		return types.Typ[types.Int16]
	case "int32", "rune":
		return types.Typ[types.Int32]
	case "uint16":
		return types.Typ[types.Uint16]
	case "uint32":
		return types.Typ[types.Uint32]
	case "error":
		return types.Universe.Lookup("error").Type()
	case "addr":
		return types.NewPointer(types.Typ[types.Int])
	}
	if pkg != nil {
		tv, err := types.Eval(P.fset, pkg, token.NoPos, s)
		if err == nil && tv.IsType() {
			return tv.Type
		}
		// try other repo packages (for library contracts)
	}
	for _, p := range P.allPkgs {
		tv, err := types.Eval(P.fset, p, token.NoPos, s)
		if err == nil && tv.IsType() {
			return tv.Type
		}
	}
	panic(unsupported("cannot resolve type %q", s))
}
