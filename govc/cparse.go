package main

import (
	"fmt"
	"os"
	"regexp"
	"strconv"
	"strings"
)

// ---------- contract AST ----------

type Expr interface{}

type (
	EIdent  struct{ Name string }
	EInt    struct{ V string }
	EBool   struct{ V bool }
	EStr    struct{ V string }
	EChar   struct{ V int64 }
	ENil    struct{}
	EUnary  struct {
		Op string
		X  Expr
	}
	EBinary struct {
		Op   string
		X, Y Expr
	}
	ECond struct{ C, A, B Expr }
	ECall struct {
		Fn   string
		Args []Expr
	}
	ESel struct {
		X    Expr
		Name string
	}
	EIndex struct{ X, I Expr }
	ESlice struct{ X, Lo, Hi Expr }
	EQuant struct {
		Forall bool
		Vars   []QVar
		Body   Expr
	}
	EOld   struct{ X Expr }
	EDeref struct{ X Expr }
	EAddr  struct{ X Expr }
)

type QVar struct {
	Name string
	Type string // "int" default
}

// ---------- lexer ----------

type tok struct {
	k string // ident int str char op eof
	s string
}

var opList = []string{"<==>", "==>", "::", "&&", "||", "==", "!=", "<=", ">=", "<<", ">>", "++", "+", "-", "*", "/", "%", "<", ">", "!", "(", ")", "[", "]", "{", "}", ",", ".", ":", "?", "&", "|", "^", "$", "#"}

func lex(s string) ([]tok, error) {
	var out []tok
	i := 0
	for i < len(s) {
		c := s[i]
		switch {
		case c == ' ' || c == '\t' || c == '\n' || c == '\r':
			i++
		case c >= '0' && c <= '9':
			j := i
			for j < len(s) && (s[j] >= '0' && s[j] <= '9' || s[j] == 'x' || s[j] >= 'a' && s[j] <= 'f' || s[j] >= 'A' && s[j] <= 'F' || s[j] == '_') {
				j++
			}
			out = append(out, tok{"int", strings.ReplaceAll(s[i:j], "_", "")})
			i = j
		case c == '_' || c >= 'a' && c <= 'z' || c >= 'A' && c <= 'Z':
			j := i
			for j < len(s) && (s[j] == '_' || s[j] == '$' || s[j] == '#' && j+1 < len(s) && s[j+1] >= '0' && s[j+1] <= '9' || s[j] >= 'a' && s[j] <= 'z' || s[j] >= 'A' && s[j] <= 'Z' || s[j] >= '0' && s[j] <= '9') {
				j++
			}
			out = append(out, tok{"ident", s[i:j]})
			i = j
		case c == '"':
			j := i + 1
			for j < len(s) && s[j] != '"' {
				if s[j] == '\\' {
					j++
				}
				j++
			}
			if j >= len(s) {
				return nil, fmt.Errorf("unterminated string in %q", s)
			}
			v, err := strconv.Unquote(s[i : j+1])
			if err != nil {
				return nil, fmt.Errorf("bad string %s: %v", s[i:j+1], err)
			}
			out = append(out, tok{"str", v})
			i = j + 1
		case c == '\'':
			j := i + 1
			for j < len(s) && s[j] != '\'' {
				if s[j] == '\\' {
					j++
				}
				j++
			}
			if j >= len(s) {
				return nil, fmt.Errorf("unterminated char in %q", s)
			}
			r, _, _, err := strconv.UnquoteChar(s[i+1:j], '\'')
			if err != nil {
				return nil, fmt.Errorf("bad char %s: %v", s[i:j+1], err)
			}
			out = append(out, tok{"char", strconv.FormatInt(int64(r), 10)})
			i = j + 1
		default:
			found := false
			for _, op := range opList {
				if strings.HasPrefix(s[i:], op) {
					out = append(out, tok{"op", op})
					i += len(op)
					found = true
					break
				}
			}
			if !found {
				return nil, fmt.Errorf("unexpected character %q in %q", c, s)
			}
		}
	}
	out = append(out, tok{"eof", ""})
	return out, nil
}

// ---------- parser (precedence climbing) ----------

type parser struct {
	toks []tok
	p    int
	src  string
}

func (p *parser) peek() tok { return p.toks[p.p] }
func (p *parser) next() tok { t := p.toks[p.p]; p.p++; return t }
func (p *parser) isOp(s string) bool {
	t := p.peek()
	return t.k == "op" && t.s == s
}
func (p *parser) expectOp(s string) error {
	if !p.isOp(s) {
		return fmt.Errorf("expected %q at token %d (%q) in %q", s, p.p, p.peek().s, p.src)
	}
	p.p++
	return nil
}

func parseExpr(src string) (Expr, error) {
	toks, err := lex(src)
	if err != nil {
		return nil, err
	}
	p := &parser{toks: toks, src: src}
	e, err := p.expr()
	if err != nil {
		return nil, err
	}
	if p.peek().k != "eof" {
		return nil, fmt.Errorf("trailing tokens at %d (%q) in %q", p.p, p.peek().s, src)
	}
	return e, nil
}

// precedence: <==> (1) ==> (2, right) ?: (3) || (4) && (5) cmp (6) + - (7) * / % (8) unary postfix
func (p *parser) expr() (Expr, error) { return p.iff() }

func (p *parser) iff() (Expr, error) {
	x, err := p.imp()
	if err != nil {
		return nil, err
	}
	for p.isOp("<==>") {
		p.p++
		y, err := p.imp()
		if err != nil {
			return nil, err
		}
		x = &EBinary{"<==>", x, y}
	}
	return x, nil
}

func (p *parser) imp() (Expr, error) {
	x, err := p.cond()
	if err != nil {
		return nil, err
	}
	if p.isOp("==>") {
		p.p++
		y, err := p.imp()
		if err != nil {
			return nil, err
		}
		return &EBinary{"==>", x, y}, nil
	}
	return x, nil
}

func (p *parser) cond() (Expr, error) {
	c, err := p.orE()
	if err != nil {
		return nil, err
	}
	if p.isOp("?") {
		p.p++
		a, err := p.cond()
		if err != nil {
			return nil, err
		}
		if err := p.expectOp(":"); err != nil {
			return nil, err
		}
		b, err := p.cond()
		if err != nil {
			return nil, err
		}
		return &ECond{c, a, b}, nil
	}
	return c, nil
}

func (p *parser) orE() (Expr, error) {
	x, err := p.andE()
	if err != nil {
		return nil, err
	}
	for p.isOp("||") {
		p.p++
		y, err := p.andE()
		if err != nil {
			return nil, err
		}
		x = &EBinary{"||", x, y}
	}
	return x, nil
}

func (p *parser) andE() (Expr, error) {
	x, err := p.cmp()
	if err != nil {
		return nil, err
	}
	for p.isOp("&&") {
		p.p++
		y, err := p.cmp()
		if err != nil {
			return nil, err
		}
		x = &EBinary{"&&", x, y}
	}
	return x, nil
}

func (p *parser) cmp() (Expr, error) {
	x, err := p.add()
	if err != nil {
		return nil, err
	}
	// chained comparisons a <= b < c  => (a<=b) && (b<c)
	var res Expr
	for {
		t := p.peek()
		if t.k == "op" && (t.s == "==" || t.s == "!=" || t.s == "<" || t.s == "<=" || t.s == ">" || t.s == ">=") {
			p.p++
			y, err := p.add()
			if err != nil {
				return nil, err
			}
			c := &EBinary{t.s, x, y}
			if res == nil {
				res = c
			} else {
				res = &EBinary{"&&", res, c}
			}
			x = y
			continue
		}
		break
	}
	if res != nil {
		return res, nil
	}
	return x, nil
}

func (p *parser) add() (Expr, error) {
	x, err := p.mul()
	if err != nil {
		return nil, err
	}
	for p.isOp("+") || p.isOp("-") || p.isOp("++") {
		op := p.next().s
		y, err := p.mul()
		if err != nil {
			return nil, err
		}
		x = &EBinary{op, x, y}
	}
	return x, nil
}

func (p *parser) mul() (Expr, error) {
	x, err := p.unary()
	if err != nil {
		return nil, err
	}
	for p.isOp("*") || p.isOp("/") || p.isOp("%") {
		op := p.next().s
		y, err := p.unary()
		if err != nil {
			return nil, err
		}
		x = &EBinary{op, x, y}
	}
	return x, nil
}

func (p *parser) unary() (Expr, error) {
	if p.isOp("!") || p.isOp("-") {
		op := p.next().s
		x, err := p.unary()
		if err != nil {
			return nil, err
		}
		return &EUnary{op, x}, nil
	}
	if p.isOp("*") {
		p.p++
		x, err := p.unary()
		if err != nil {
			return nil, err
		}
		return &EDeref{x}, nil
	}
	if p.isOp("&") {
		p.p++
		x, err := p.unary()
		if err != nil {
			return nil, err
		}
		return &EAddr{x}, nil
	}
	return p.postfix()
}

func (p *parser) postfix() (Expr, error) {
	x, err := p.primary()
	if err != nil {
		return nil, err
	}
	for {
		switch {
		case p.isOp("."):
			p.p++
			t := p.next()
			if t.k != "ident" {
				return nil, fmt.Errorf("expected field name after '.' in %q", p.src)
			}
			// qualified identifier pkg.Name is kept as ESel on an EIdent
			x = &ESel{x, t.s}
		case p.isOp("["):
			p.p++
			if p.isOp(":") {
				p.p++
				if p.isOp("]") {
					p.p++
					x = &ESlice{x, nil, nil}
					continue
				}
				hi, err := p.expr()
				if err != nil {
					return nil, err
				}
				if err := p.expectOp("]"); err != nil {
					return nil, err
				}
				x = &ESlice{x, nil, hi}
				continue
			}
			i, err := p.expr()
			if err != nil {
				return nil, err
			}
			if p.isOp(":") {
				p.p++
				if p.isOp("]") {
					p.p++
					x = &ESlice{x, i, nil}
					continue
				}
				hi, err := p.expr()
				if err != nil {
					return nil, err
				}
				if err := p.expectOp("]"); err != nil {
					return nil, err
				}
				x = &ESlice{x, i, hi}
				continue
			}
			if err := p.expectOp("]"); err != nil {
				return nil, err
			}
			x = &EIndex{x, i}
		case p.isOp("("):
			id, ok := x.(*EIdent)
			if !ok {
				return nil, fmt.Errorf("call of non-identifier in %q", p.src)
			}
			p.p++
			var args []Expr
			for !p.isOp(")") {
				a, err := p.expr()
				if err != nil {
					return nil, err
				}
				args = append(args, a)
				if p.isOp(",") {
					p.p++
				}
			}
			p.p++
			if id.Name == "old" && len(args) == 1 {
				x = &EOld{args[0]}
			} else {
				x = &ECall{id.Name, args}
			}
		default:
			return x, nil
		}
	}
}

func (p *parser) primary() (Expr, error) {
	t := p.next()
	switch t.k {
	case "int":
		return &EInt{t.s}, nil
	case "str":
		return &EStr{t.s}, nil
	case "char":
		v, _ := strconv.ParseInt(t.s, 10, 64)
		return &EChar{v}, nil
	case "ident":
		switch t.s {
		case "true":
			return &EBool{true}, nil
		case "false":
			return &EBool{false}, nil
		case "nil":
			return &ENil{}, nil
		case "forall", "exists":
			var vars []QVar
			for {
				v := p.next()
				if v.k != "ident" {
					return nil, fmt.Errorf("expected bound variable in %q", p.src)
				}
				qv := QVar{v.s, "int"}
				// optional type: tokens up to ',' or '::'
				var ty []string
				for !(p.isOp(",") || p.isOp("::") || p.peek().k == "eof") {
					ty = append(ty, p.next().s)
				}
				if len(ty) > 0 {
					qv.Type = strings.Join(ty, "")
				}
				vars = append(vars, qv)
				if p.isOp(",") {
					p.p++
					continue
				}
				break
			}
			if err := p.expectOp("::"); err != nil {
				return nil, err
			}
			body, err := p.expr()
			if err != nil {
				return nil, err
			}
			return &EQuant{t.s == "forall", vars, body}, nil
		}
		return &EIdent{t.s}, nil
	case "op":
		if t.s == "(" {
			e, err := p.expr()
			if err != nil {
				return nil, err
			}
			if err := p.expectOp(")"); err != nil {
				return nil, err
			}
			return e, nil
		}
	}
	return nil, fmt.Errorf("unexpected token %q in %q", t.s, p.src)
}

// ---------- contract declarations ----------

type Clause struct {
	Kind  string // requires ensures invariant decreases modifies at-return assume
	Label string
	Props []string
	Text  string
	E     Expr
	Loop  int
	Mods  []ModItem
	File  string
	Line  int
	Uses  []string // lemmas made available to the proof of this clause
	Needs []string // labels of the assumed invariant clauses this proof may use (empty: all)
}

type ModItem struct {
	Comps []string // component patterns e.g. "reader.r" or "Call.*" or "ghost:fetched" or "elems"
	At    Expr     // nil = anywhere
	AtSrc string
	After Expr // addresses allocated after this object
	CallerFresh bool // (assumed, per call site) only memory allocated since the caller's entry
	Elems Expr // for elems(slice)
	MapOf Expr // for mapof(m): the domain, length and values of that map
	In    Expr // '<comps> in <slice>': those fields of the elements of that slice
}

type FuncContract struct {
	Key      string // e.g. "atou", "(*reader).fill"
	Pkg      string
	Requires []*Clause
	Ensures  []*Clause
	Modifies []*Clause // nil => modifies nothing
	Loops    map[int][]*Clause
	Extern   bool
	ExtNames []string // parameter names for externs
	ExtRes   []string // result names for externs
	Pure     bool
	Opts     map[string]string
	Used     bool
	File     string
	Line     int
	GVars    []GVarDecl
	GResults []GVarDecl
	Updates  []*UpdateClause
	Asserts  []*AssertClause
}

type AssertClause struct {
	Site string
	C    *Clause
}

type GVarDecl struct {
	Name, Type, Init string
}

type Assign struct {
	LHS    Expr
	RHS    Expr
	Lambda string // bound variable of a bulk update "x := lambda j :: e"
}

type UpdateClause struct {
	Site    string
	Assigns []Assign
	Text    string
}

type SpecFunc struct {
	Name   string
	Params []QVar
	Ret    string
	Body   Expr
	Text   string
	Pkg    string
	Opaque bool
	NoInline bool
	Ordered  bool
}

type Lemma struct {
	Name     string
	Params   []QVar
	Requires []*Clause
	Ensures  []*Clause
	Props    []string
	Pkg      string
	Induct   string
	Uses     []string
}

type GhostDecl struct {
	Name   string
	Params []QVar
	Ret    string
	Rigid  bool
}

type Contracts struct {
	Funcs  map[string]*FuncContract // key: pkgpath + "." + Key
	Specs  map[string]*SpecFunc
	Lemmas []*Lemma
	Ghosts map[string]*GhostDecl
	Axioms []*Clause
	Patterns map[string]string // package-level literal (regexp pattern or byte constant) the assumed contracts were written for
}

var kwRe = regexp.MustCompile(`^(func|extern|requires|ensures|modifies|loop|spec|pred|lemma|ghost|at-return|option|axiom|pure|induction|uses|gvar|update|ghostresult|assert|pattern)\b`)
var tagRe = regexp.MustCompile(`^\[([^\]]*)\]\s*`)

func newContracts() *Contracts {
	return &Contracts{Funcs: map[string]*FuncContract{}, Specs: map[string]*SpecFunc{}, Ghosts: map[string]*GhostDecl{}}
}

// parseContractFile reads //@ lines from a file. pkg is the package path the
// file belongs to ("" for library contract files, where extern keys are fully
// qualified).
func (cs *Contracts) parseFile(path, pkg string) error {
	data, err := os.ReadFile(path)
	if err != nil {
		return err
	}
	type item struct {
		text string
		line int
	}
	var items []item
	for i, ln := range strings.Split(string(data), "\n") {
		t := strings.TrimSpace(ln)
		if !strings.HasPrefix(t, "//@") {
			continue
		}
		t = strings.TrimSpace(t[3:])
		if t == "" || strings.HasPrefix(t, "--") {
			continue
		}
		if idx := strings.Index(t, " -- "); idx >= 0 {
			t = strings.TrimSpace(t[:idx])
		}
		if kwRe.MatchString(t) {
			items = append(items, item{t, i + 1})
		} else if len(items) > 0 {
			items[len(items)-1].text += " " + t
		} else {
			return fmt.Errorf("%s:%d: continuation without clause", path, i+1)
		}
	}
	var cur *FuncContract
	var curLemma *Lemma
	for _, it := range items {
		kw := kwRe.FindString(it.text)
		rest := strings.TrimSpace(it.text[len(kw):])
		fail := func(e error) error { return fmt.Errorf("%s:%d: %v", path, it.line, e) }
		switch kw {
		case "func", "extern":
			curLemma = nil
			fc := &FuncContract{Loops: map[int][]*Clause{}, Opts: map[string]string{}, File: path, Line: it.line, Pkg: pkg}
			if kw == "extern" {
				fc.Extern = true
				// extern pkg.Func(a, b) (r, err)   or   extern (io.Reader).Read(p) (n, err)
				// or extern re:reFunc.FindSubmatch(b) (m)
				m := regexp.MustCompile(`^(\S+?)\(([^)]*)\)\s*(?:\(([^)]*)\))?$`).FindStringSubmatch(rest)
				if strings.HasPrefix(rest, "(") {
					m = regexp.MustCompile(`^(\([^)]*\)\.\w+)\(([^)]*)\)\s*(?:\(([^)]*)\))?$`).FindStringSubmatch(rest)
				}
				if m == nil {
					return fail(fmt.Errorf("bad extern header %q", rest))
				}
				fc.Key = m[1]
				fc.ExtNames = splitNames(m[2])
				fc.ExtRes = splitNames(m[3])
				cs.Funcs[fc.Key] = fc
			} else {
				fc.Key = rest
				cs.Funcs[pkg+"."+rest] = fc
			}
			cur = fc
		case "pure":
			if cur != nil {
				cur.Pure = true
			}
		case "option":
			if cur == nil {
				return fail(fmt.Errorf("option outside func"))
			}
			kv := strings.SplitN(rest, "=", 2)
			if len(kv) == 2 {
				cur.Opts[strings.TrimSpace(kv[0])] = strings.TrimSpace(kv[1])
			} else {
				cur.Opts[rest] = "true"
			}
		case "requires", "ensures", "at-return":
			c := &Clause{Kind: kw, File: path, Line: it.line}
			rest = c.takeTags(rest)
			e, err := parseExpr(rest)
			if err != nil {
				return fail(err)
			}
			c.Text, c.E = rest, e
			if curLemma != nil {
				if kw == "requires" {
					curLemma.Requires = append(curLemma.Requires, c)
				} else {
					curLemma.Ensures = append(curLemma.Ensures, c)
				}
				continue
			}
			if cur == nil {
				return fail(fmt.Errorf("%s outside func", kw))
			}
			if kw == "requires" {
				cur.Requires = append(cur.Requires, c)
			} else {
				cur.Ensures = append(cur.Ensures, c)
			}
		case "gvar", "ghostresult":
			if cur == nil {
				return fail(fmt.Errorf("%s outside func", kw))
			}
			d := GVarDecl{}
			if i := strings.Index(rest, "="); i >= 0 {
				d.Init = strings.TrimSpace(rest[i+1:])
				rest = strings.TrimSpace(rest[:i])
			}
			f := strings.SplitN(rest, " ", 2)
			if len(f) != 2 {
				return fail(fmt.Errorf("bad %s declaration %q", kw, rest))
			}
			d.Name, d.Type = f[0], strings.ReplaceAll(f[1], " ", "")
			if kw == "gvar" {
				cur.GVars = append(cur.GVars, d)
			} else {
				cur.GResults = append(cur.GResults, d)
			}
		case "assert":
			if cur == nil {
				return fail(fmt.Errorf("assert outside func"))
			}
			ci := strings.Index(rest, ":")
			if ci < 0 {
				return fail(fmt.Errorf("bad assert clause %q", rest))
			}
			ac := &AssertClause{Site: strings.TrimSpace(rest[:ci]), C: &Clause{Kind: "assert", File: path, Line: it.line}}
			body := ac.C.takeTags(strings.TrimSpace(rest[ci+1:]))
			e, err := parseExpr(body)
			if err != nil {
				return fail(err)
			}
			ac.C.Text, ac.C.E = body, e
			cur.Asserts = append(cur.Asserts, ac)
		case "update":
			if cur == nil {
				return fail(fmt.Errorf("update outside func"))
			}
			i := strings.Index(rest, ":")
			for i >= 0 && i+1 < len(rest) && rest[i+1] == '=' {
				j := strings.Index(rest[i+2:], ":")
				if j < 0 {
					i = -1
				} else {
					i = i + 2 + j
				}
			}
			if i < 0 {
				return fail(fmt.Errorf("bad update clause %q", rest))
			}
			uc := &UpdateClause{Site: strings.TrimSpace(rest[:i]), Text: rest}
			for _, as := range splitTop(rest[i+1:], ';') {
				as = strings.TrimSpace(as)
				if as == "" {
					continue
				}
				k := strings.Index(as, ":=")
				if k < 0 {
					return fail(fmt.Errorf("bad assignment %q", as))
				}
				lhs, err := parseExpr(strings.TrimSpace(as[:k]))
				if err != nil {
					return fail(err)
				}
				rhsText := strings.TrimSpace(as[k+2:])
				a := Assign{LHS: lhs}
				if strings.HasPrefix(rhsText, "lambda ") {
					q := strings.Index(rhsText, "::")
					if q < 0 {
						return fail(fmt.Errorf("bad lambda %q", rhsText))
					}
					a.Lambda = strings.TrimSpace(rhsText[7:q])
					rhsText = strings.TrimSpace(rhsText[q+2:])
				}
				rhs, err := parseExpr(rhsText)
				if err != nil {
					return fail(err)
				}
				a.RHS = rhs
				uc.Assigns = append(uc.Assigns, a)
			}
			cur.Updates = append(cur.Updates, uc)
		case "uses":
			if curLemma == nil {
				return fail(fmt.Errorf("uses outside lemma"))
			}
			for _, u := range strings.Split(rest, ",") {
				curLemma.Uses = append(curLemma.Uses, strings.TrimSpace(u))
			}
		case "induction":
			if curLemma == nil {
				return fail(fmt.Errorf("induction outside lemma"))
			}
			curLemma.Induct = rest
		case "modifies":
			if cur == nil {
				return fail(fmt.Errorf("modifies outside func"))
			}
			c := &Clause{Kind: kw, File: path, Line: it.line, Text: rest}
			if rest != "nothing" {
				for _, part := range splitTop(rest, ';') {
					part = strings.TrimSpace(part)
					mi := ModItem{}
					if strings.HasSuffix(part, " caller-fresh") {
						mi.CallerFresh = true
						part = strings.TrimSpace(strings.TrimSuffix(part, " caller-fresh"))
					}
					if i := strings.Index(part, " after "); i >= 0 {
						e, err := parseExpr(strings.TrimSpace(part[i+7:]))
						if err != nil {
							return fail(err)
						}
						mi.After = e
						part = strings.TrimSpace(part[:i])
					}
					if i := strings.Index(part, " in "); i >= 0 {
						e, err := parseExpr(strings.TrimSpace(part[i+4:]))
						if err != nil {
							return fail(err)
						}
						mi.In = e
						part = strings.TrimSpace(part[:i])
					}
					if i := strings.Index(part, " at "); i >= 0 {
						mi.AtSrc = strings.TrimSpace(part[i+4:])
						e, err := parseExpr(mi.AtSrc)
						if err != nil {
							return fail(err)
						}
						mi.At = e
						part = strings.TrimSpace(part[:i])
					}
					if strings.HasPrefix(part, "mapof(") && strings.HasSuffix(part, ")") {
						e, err := parseExpr(part[6 : len(part)-1])
						if err != nil {
							return fail(err)
						}
						mi.MapOf = e
						mi.Comps = []string{"mapof"}
						c.Mods = append(c.Mods, mi)
						continue
					}
					if strings.HasPrefix(part, "elems(") && strings.HasSuffix(part, ")") {
						e, err := parseExpr(part[6 : len(part)-1])
						if err != nil {
							return fail(err)
						}
						mi.Elems = e
						mi.Comps = []string{"elems"}
					} else {
						for _, cpt := range strings.Split(part, ",") {
							mi.Comps = append(mi.Comps, strings.TrimSpace(cpt))
						}
					}
					c.Mods = append(c.Mods, mi)
				}
			}
			cur.Modifies = append(cur.Modifies, c)
		case "loop":
			if cur == nil {
				return fail(fmt.Errorf("loop outside func"))
			}
			m := regexp.MustCompile(`^(\d+)\s*:\s*(invariant|decreases|free)\s+(.*)$`).FindStringSubmatch(rest)
			if m == nil {
				return fail(fmt.Errorf("bad loop clause %q", rest))
			}
			n, _ := strconv.Atoi(m[1])
			c := &Clause{Kind: m[2], Loop: n, File: path, Line: it.line}
			body := c.takeTags(m[3])
			e, err := parseExpr(body)
			if err != nil {
				return fail(err)
			}
			c.Text, c.E = body, e
			cur.Loops[n] = append(cur.Loops[n], c)
		case "spec", "pred":
			cur, curLemma = nil, nil
			// spec name(a T, b U) R = expr      pred name(a T) = expr
			i := strings.Index(rest, "(")
			j := matchParen(rest, i)
			if i < 0 || j < 0 {
				return fail(fmt.Errorf("bad spec header"))
			}
			sf := &SpecFunc{Name: strings.TrimSpace(rest[:i]), Pkg: pkg}
			for changed := true; changed; {
				changed = false
				if strings.HasPrefix(sf.Name, "ordered ") {
					sf.Ordered = true
					sf.Name = strings.TrimSpace(sf.Name[8:])
					changed = true
				}
				if strings.HasPrefix(sf.Name, "noinline ") {
					sf.NoInline = true
					sf.Name = strings.TrimSpace(sf.Name[9:])
					changed = true
				}
			}
			sf.Params = parseParams(rest[i+1 : j])
			tail := strings.TrimSpace(rest[j+1:])
			k := strings.Index(tail, "=")
			if k < 0 {
				// uninterpreted spec function
				sf.Ret = strings.TrimSpace(tail)
				sf.Opaque = true
				cs.Specs[sf.Name] = sf
				continue
			}
			sf.Ret = strings.TrimSpace(tail[:k])
			if kw == "pred" || sf.Ret == "" {
				sf.Ret = "bool"
			}
			sf.Text = strings.TrimSpace(tail[k+1:])
			e, err := parseExpr(sf.Text)
			if err != nil {
				return fail(err)
			}
			sf.Body = e
			cs.Specs[sf.Name] = sf
		case "lemma":
			cur = nil
			c := &Clause{}
			rest = c.takeTags(rest)
			i := strings.Index(rest, "(")
			j := matchParen(rest, i)
			if i < 0 || j < 0 {
				return fail(fmt.Errorf("bad lemma header"))
			}
			curLemma = &Lemma{Name: strings.TrimSpace(rest[:i]), Params: parseParams(rest[i+1 : j]), Props: c.Props, Pkg: pkg}
			cs.Lemmas = append(cs.Lemmas, curLemma)
		case "ghost":
			cur, curLemma = nil, nil
			g := &GhostDecl{}
			if strings.HasPrefix(rest, "rigid ") {
				g.Rigid = true
				rest = strings.TrimSpace(rest[6:])
			}
			i := strings.Index(rest, "(")
			j := matchParen(rest, i)
			if i < 0 || j < 0 {
				return fail(fmt.Errorf("bad ghost header"))
			}
			g.Name = strings.TrimSpace(rest[:i])
			g.Params = parseParams(rest[i+1 : j])
			g.Ret = strings.TrimSpace(rest[j+1:])
			cs.Ghosts[g.Name] = g
		case "pattern":
			// pattern <pkg>.<var> "<go string literal>"
			sp := strings.IndexByte(rest, ' ')
			if sp < 0 {
				return fail(fmt.Errorf("bad pattern clause"))
			}
			val, err := strconv.Unquote(strings.TrimSpace(rest[sp+1:]))
			if err != nil {
				return fail(fmt.Errorf("bad pattern literal: %v", err))
			}
			if cs.Patterns == nil {
				cs.Patterns = map[string]string{}
			}
			cs.Patterns[strings.TrimSpace(rest[:sp])] = val
		case "axiom":
			c := &Clause{Kind: "axiom", File: path, Line: it.line}
			rest = c.takeTags(rest)
			e, err := parseExpr(rest)
			if err != nil {
				return fail(err)
			}
			c.Text, c.E = rest, e
			cs.Axioms = append(cs.Axioms, c)
		}
	}
	return nil
}

func (c *Clause) takeTags(s string) string {
	if m := tagRe.FindStringSubmatch(s); m != nil {
		for _, t := range strings.Fields(strings.ReplaceAll(m[1], ",", " ")) {
			if regexp.MustCompile(`^C\d\d$`).MatchString(t) {
				c.Props = append(c.Props, t)
			} else if strings.HasPrefix(t, "needs=") {
				c.Needs = append(c.Needs, strings.Split(t[6:], "+")...)
			} else if strings.HasPrefix(t, "uses=") {
				c.Uses = append(c.Uses, strings.Split(t[5:], "+")...)
			} else {
				c.Label = t
			}
		}
		return s[len(m[0]):]
	}
	return s
}

func splitNames(s string) []string {
	var out []string
	for _, p := range strings.Split(s, ",") {
		p = strings.TrimSpace(p)
		if p != "" {
			out = append(out, strings.Fields(p)[0])
		}
	}
	return out
}

func parseParams(s string) []QVar {
	var out []QVar
	for _, p := range splitTop(s, ',') {
		p = strings.TrimSpace(p)
		if p == "" {
			continue
		}
		f := strings.SplitN(p, " ", 2)
		qv := QVar{Name: f[0], Type: "int"}
		if len(f) == 2 {
			qv.Type = strings.TrimSpace(f[1])
		}
		out = append(out, qv)
	}
	// "a, b T" style: propagate types backwards
	for i := len(out) - 2; i >= 0; i-- {
		if !strings.Contains(strings.TrimSpace(splitTop(s, ',')[i]), " ") {
			out[i].Type = out[i+1].Type
		}
	}
	return out
}

func splitTop(s string, sep byte) []string {
	var out []string
	depth := 0
	last := 0
	for i := 0; i < len(s); i++ {
		switch s[i] {
		case '(', '[', '{':
			depth++
		case ')', ']', '}':
			depth--
		default:
			if s[i] == sep && depth == 0 {
				out = append(out, s[last:i])
				last = i + 1
			}
		}
	}
	out = append(out, s[last:])
	return out
}

func matchParen(s string, i int) int {
	if i < 0 {
		return -1
	}
	d := 0
	for j := i; j < len(s); j++ {
		switch s[j] {
		case '(':
			d++
		case ')':
			d--
			if d == 0 {
				return j
			}
		}
	}
	return -1
}
