package main

import (
	"fmt"
	"go/types"
	"sort"
	"strings"

	"golang.org/x/tools/go/ssa"
)

// Spec functions are compiled to SMT functions that take the heap components
// they read as explicit parameters.

type specInfo struct {
	sf     *SpecFunc
	comps  []string // heap components read (sorted), transitively
	deps   map[string]bool
	body   string
	ptypes []types.Type
	rtype  types.Type
	rsort  string
	usesAl bool
}

type specTable struct {
	infos map[string]*specInfo
}

func (vc *VC) specs() *specTable {
	if vc.specTab == nil {
		vc.specTab = &specTable{infos: map[string]*specInfo{}}
	}
	return vc.specTab
}

// paramState is a State whose heap lookups resolve to parameter symbols.
func (vc *VC) specParamHeap(comp string) string {
	return "|p:" + strings.Trim(comp, "|") + "|"
}

func (vc *VC) specInfoFor(sf *SpecFunc) *specInfo {
	tab := vc.specs()
	if si, ok := tab.infos[sf.Name]; ok {
		return si
	}
	vc.prog.prepareSpecs()
	si := &specInfo{sf: sf, deps: map[string]bool{}}
	tab.infos[sf.Name] = si
	pkg := vc.prog.specPkg(sf, vc)
	for _, p := range sf.Params {
		si.ptypes = append(si.ptypes, vc.prog.resolveType(p.Type, pkg))
	}
	si.rtype = vc.prog.resolveType(sf.Ret, pkg)
	si.rsort = sortOfType(si.rtype)
	if sf.Opaque {
		return si
	}
	if !vc.preparing {
		si.comps = append([]string{}, vc.prog.specComps[sf.Name]...)
		for _, c := range si.comps {
			vc.regCompFull(c, vc.prog.specCompSorts[c])
		}
	}
	vc.compileSpec(si, pkg)
	return si
}

func (P *Program) specPkg(sf *SpecFunc, vc *VC) *types.Package {
	for _, p := range P.allPkgs {
		if p.Path() == sf.Pkg {
			return p
		}
	}
	if vc != nil && vc.fn != nil {
		return vc.fn.Pkg.Pkg
	}
	if vc != nil && vc.lemmaPkg != nil {
		return vc.lemmaPkg
	}
	return nil
}

// prepareSpecs computes, once per program, the set of heap components every
// recursive spec function reads (transitively), by iterating compilation in a
// scratch context until the sets are stable.
func (P *Program) prepareSpecs() {
	if P.specComps != nil {
		return
	}
	P.specComps = map[string][]string{}
	P.specCompSorts = map[string]string{}
	var names []string
	for n, sf := range P.contracts.Specs {
		if !sf.Opaque && sf.Body != nil && (sf.NoInline || P.isRecursiveSpec(n)) {
			names = append(names, n)
		}
	}
	sort.Strings(names)
	for iter := 0; iter < 10; iter++ {
		changed := false
		for _, n := range names {
			sf := P.contracts.Specs[n]
			vc := &VC{prog: P, declSet: map[string]bool{}, compSorts: map[string]string{}, touched: map[string]bool{},
				strLits: map[string]string{}, params: map[string]Val{}, counters: map[string]int{}, usedExt: map[string]bool{}, usedSpecs: map[string]bool{}}
			vc.curReach = "true"
			vc.preparing = true
			vc.lemmaPkg = P.specPkg(sf, nil)
			si := vc.specInfoFor(sf)
			set := map[string]bool{}
			for _, c := range P.specComps[n] {
				set[c] = true
			}
			before := len(set)
			for _, c := range si.comps {
				set[c] = true
				P.specCompSorts[c] = vc.compSorts[c]
			}
			// callee components
			for d := range si.deps {
				for _, c := range P.specComps[d] {
					set[c] = true
				}
			}
			if len(set) != before {
				changed = true
				var l []string
				for c := range set {
					l = append(l, c)
				}
				sort.Strings(l)
				P.specComps[n] = l
			}
		}
		if !changed {
			break
		}
	}
}

func (vc *VC) compileSpec(si *specInfo, pkg *types.Package) {
	rec := map[string]bool{}
	for _, c := range si.comps {
		rec[c] = true
	}
	st := &State{cells: nil, heaps: map[string]string{}, pseudo: map[string]string{}, alloc: "|p:alloc|"}
	save := vc.specRecorder
	vc.specRecorder = func(comp string) string {
		rec[comp] = true
		return vc.specParamHeap(comp)
	}
	saveCur := vc.curSpec
	vc.curSpec = si
	env := &Env{vc: vc, names: map[string]envEntry{}, pkg: pkg}
	for i, p := range si.sf.Params {
		v := Val{K: kindOf(si.ptypes[i]), T: si.ptypes[i], S: "|a:" + p.Name + "|"}
		env.names[p.Name] = envEntry{val: &v}
	}
	body := vc.evalVal(si.sf.Body, env, st, st)
	vc.specRecorder = save
	vc.curSpec = saveCur
	si.body = body.S
	if vc.preparing {
		si.comps = si.comps[:0]
		for c := range rec {
			si.comps = append(si.comps, c)
		}
		sort.Strings(si.comps)
	}
}

// specCalls collects the spec functions called in an expression.
func specCalls(e Expr, specs map[string]*SpecFunc, out map[string]bool) {
	switch x := e.(type) {
	case *ECall:
		if _, ok := specs[x.Fn]; ok {
			out[x.Fn] = true
		}
		for _, a := range x.Args {
			specCalls(a, specs, out)
		}
	case *EIdent:
		if sf, ok := specs[x.Name]; ok && len(sf.Params) == 0 {
			out[x.Name] = true
		}
	case *EUnary:
		specCalls(x.X, specs, out)
	case *EBinary:
		specCalls(x.X, specs, out)
		specCalls(x.Y, specs, out)
	case *ECond:
		specCalls(x.C, specs, out)
		specCalls(x.A, specs, out)
		specCalls(x.B, specs, out)
	case *ESel:
		specCalls(x.X, specs, out)
	case *EIndex:
		specCalls(x.X, specs, out)
		specCalls(x.I, specs, out)
	case *ESlice:
		specCalls(x.X, specs, out)
		if x.Lo != nil {
			specCalls(x.Lo, specs, out)
		}
		if x.Hi != nil {
			specCalls(x.Hi, specs, out)
		}
	case *EQuant:
		specCalls(x.Body, specs, out)
	case *EOld:
		specCalls(x.X, specs, out)
	case *EDeref:
		specCalls(x.X, specs, out)
	case *EAddr:
		specCalls(x.X, specs, out)
	}
}

// isRecursiveSpec reports whether a spec function can reach itself.
func (P *Program) isRecursiveSpec(name string) bool {
	if v, ok := P.recSpec[name]; ok {
		return v
	}
	seen := map[string]bool{}
	var visit func(n string) bool
	visit = func(n string) bool {
		sf := P.contracts.Specs[n]
		if sf == nil || sf.Body == nil {
			return false
		}
		calls := map[string]bool{}
		specCalls(sf.Body, P.contracts.Specs, calls)
		for c := range calls {
			if c == name {
				return true
			}
			if !seen[c] {
				seen[c] = true
				if visit(c) {
					return true
				}
			}
		}
		return false
	}
	r := visit(name)
	if P.recSpec == nil {
		P.recSpec = map[string]bool{}
	}
	P.recSpec[name] = r
	return r
}

// callSpec emits an application of a spec function in the given state.
// Non-recursive spec functions are expanded in place.
func (vc *VC) callSpec(sf *SpecFunc, args []Val, st, old *State) Val {
	if !sf.Opaque && !sf.NoInline && !vc.prog.isRecursiveSpec(sf.Name) {
		var pkg *types.Package
		for _, p := range vc.prog.allPkgs {
			if p.Path() == sf.Pkg {
				pkg = p
			}
		}
		if pkg == nil && vc.fn != nil {
			pkg = vc.fn.Pkg.Pkg
		}
		env := &Env{vc: vc, names: map[string]envEntry{}, pkg: pkg}
		for i, p := range sf.Params {
			v := args[i]
			if p.Type != "auto" {
				pt := vc.prog.resolveType(p.Type, pkg)
				if v.T == nil || kindOf(pt) == v.K {
					v.T = pt
				}
			}
			env.names[p.Name] = envEntry{val: &v}
		}
		r := vc.evalVal(sf.Body, env, st, old)
		rt := vc.prog.resolveType(sf.Ret, pkg)
		r.T = rt
		return r
	}
	si := vc.specInfoFor(sf)
	if vc.preparing {
		if vc.curSpec != nil {
			vc.curSpec.deps[sf.Name] = true
		}
		return Val{K: kindOf(si.rtype), T: si.rtype, S: "spec_placeholder"}
	}
	if vc.curSpec != nil {
		vc.curSpec.deps[sf.Name] = true
	}
	vc.usedSpecs[sf.Name] = true
	var as []string
	for _, c := range si.comps {
		as = append(as, vc.heap(st, c))
	}
	vc.specEntryFrame(sf, si, st)
	for _, a := range args {
		as = append(as, a.S)
	}
	name := "spec_" + sf.Name
	r := Val{K: kindOf(si.rtype), T: si.rtype}
	if len(as) == 0 {
		r.S = name
	} else {
		r.S = sx(name, as...)
	}
	return r
}

// specDecls renders the definitions of all spec functions used, dependencies
// first; recursive groups use define-funs-rec.
func (vc *VC) specDecls() string { return vc.specDeclsFor(nil) }

// specClosure: the given spec names plus everything their definitions use.
func (vc *VC) specClosure(names map[string]bool) map[string]bool {
	tab := vc.specs()
	out := map[string]bool{}
	var visit func(n string)
	visit = func(n string) {
		if out[n] {
			return
		}
		out[n] = true
		if si, ok := tab.infos[n]; ok {
			for d := range si.deps {
				visit(d)
			}
		}
	}
	for n := range names {
		visit(n)
	}
	return out
}

func (vc *VC) specDeclsFor(only map[string]bool) string {
	tab := vc.specs()
	// close over dependencies
	used := map[string]bool{}
	var visit func(n string)
	visit = func(n string) {
		if used[n] {
			return
		}
		used[n] = true
		if si, ok := tab.infos[n]; ok {
			for d := range si.deps {
				visit(d)
			}
		}
	}
	for n := range vc.usedSpecs {
		if only == nil || only[n] {
			visit(n)
		}
	}
	// Tarjan SCC
	index := map[string]int{}
	low := map[string]int{}
	on := map[string]bool{}
	var stack []string
	var sccs [][]string
	idx := 0
	var names []string
	for n := range used {
		names = append(names, n)
	}
	sort.Strings(names)
	var strong func(v string)
	strong = func(v string) {
		index[v] = idx
		low[v] = idx
		idx++
		stack = append(stack, v)
		on[v] = true
		var ds []string
		for d := range tab.infos[v].deps {
			ds = append(ds, d)
		}
		sort.Strings(ds)
		for _, w := range ds {
			if _, ok := index[w]; !ok {
				strong(w)
				if low[w] < low[v] {
					low[v] = low[w]
				}
			} else if on[w] && index[w] < low[v] {
				low[v] = index[w]
			}
		}
		if low[v] == index[v] {
			var comp []string
			for {
				w := stack[len(stack)-1]
				stack = stack[:len(stack)-1]
				on[w] = false
				comp = append(comp, w)
				if w == v {
					break
				}
			}
			sccs = append(sccs, comp)
		}
	}
	for _, n := range names {
		if _, ok := index[n]; !ok {
			strong(n)
		}
	}
	var b strings.Builder
	sig := func(si *specInfo) string {
		var ps []string
		for _, c := range si.comps {
			ps = append(ps, "("+vc.specParamHeap(c)+" "+vc.compSort(c)+")")
		}
		for i, p := range si.sf.Params {
			ps = append(ps, "(|a:"+p.Name+"| "+sortOfType(si.ptypes[i])+")")
		}
		return "(" + strings.Join(ps, " ") + ") " + si.rsort
	}
	for _, comp := range sccs { // Tarjan emits dependencies first
		sort.Strings(comp)
		si0 := tab.infos[comp[0]]
		recursive := len(comp) > 1 || si0.deps[comp[0]]
		if si0.sf.Opaque {
			var ps []string
			for i := range si0.sf.Params {
				ps = append(ps, sortOfType(si0.ptypes[i]))
			}
			fmt.Fprintf(&b, "(declare-fun spec_%s (%s) %s)\n", si0.sf.Name, strings.Join(ps, " "), si0.rsort)
			continue
		}
		if !recursive {
			if si0.sf.NoInline {
				// kept as a symbol so that lemmas about it have triggers
				var sorts, binders, args []string
				for _, c := range si0.comps {
					sorts = append(sorts, vc.compSort(c))
					binders = append(binders, "("+vc.specParamHeap(c)+" "+vc.compSort(c)+")")
					args = append(args, vc.specParamHeap(c))
				}
				for i, p := range si0.sf.Params {
					sorts = append(sorts, sortOfType(si0.ptypes[i]))
					binders = append(binders, "(|a:"+p.Name+"| "+sortOfType(si0.ptypes[i])+")")
					args = append(args, "|a:"+p.Name+"|")
				}
				app := sx("spec_"+si0.sf.Name, args...)
				fmt.Fprintf(&b, "(declare-fun spec_%s (%s) %s)\n", si0.sf.Name, strings.Join(sorts, " "), si0.rsort)
				fmt.Fprintf(&b, "(assert (forall (%s) (! (= %s %s) :pattern (%s))))\n", strings.Join(binders, " "), app, si0.body, app)
				continue
			}
			fmt.Fprintf(&b, "(define-fun spec_%s %s %s)\n", si0.sf.Name, sig(si0), si0.body)
			continue
		}
		// recursive groups: uninterpreted symbols with definitional axioms
		// triggered on their own applications (one-level unfolding by
		// E-matching); this behaves better with the frame axioms than
		// define-funs-rec.
		for _, n := range comp {
			si := tab.infos[n]
			var sorts []string
			for _, c := range si.comps {
				sorts = append(sorts, vc.compSort(c))
			}
			for i := range si.sf.Params {
				sorts = append(sorts, sortOfType(si.ptypes[i]))
			}
			fmt.Fprintf(&b, "(declare-fun spec_%s (%s) %s)\n", n, strings.Join(sorts, " "), si.rsort)
		}
		for _, n := range comp {
			si := tab.infos[n]
			var binders, args []string
			for _, c := range si.comps {
				binders = append(binders, "("+vc.specParamHeap(c)+" "+vc.compSort(c)+")")
				args = append(args, vc.specParamHeap(c))
			}
			for i, p := range si.sf.Params {
				binders = append(binders, "(|a:"+p.Name+"| "+sortOfType(si.ptypes[i])+")")
				args = append(args, "|a:"+p.Name+"|")
			}
			app := sx("spec_"+n, args...)
			fmt.Fprintf(&b, "(assert (forall (%s) (! (= %s %s) :pattern (%s))))\n", strings.Join(binders, " "), app, si.body, app)
		}
	}
	return b.String()
}

// specFrame emits, for every recursive spec function that reads a component
// whose new version agrees with the old one on all addresses allocated before
// `bound`, the fact that its value on such pre-existing arguments is
// unchanged. Justified by heap closure (everything reachable from an object
// allocated before `bound` was itself allocated before `bound`); listed as a
// meta-assumption (A4) in the evidence.
func (vc *VC) specFrame(oldHeap func(comp string) string, st *State, changed map[string]bool, bound string) {
	if len(changed) == 0 {
		return
	}
	var names []string
	for n, sf := range vc.prog.contracts.Specs {
		if vc.prog.isRecursiveSpec(n) || sf.NoInline {
			names = append(names, n)
		}
	}
	sort.Strings(names)
	for _, n := range names {
		sf := vc.prog.contracts.Specs[n]
		if sf.Opaque || sf.Body == nil {
			continue
		}
		si := vc.specInfoFor(sf)
		touches := false
		ok := true
		for _, c := range si.comps {
			if changed[c] {
				touches = true
			} else if vc.heap(st, c) != oldHeap(c) {
				ok = false // changed in a way we know nothing about
			}
		}
		if !touches || !ok {
			continue
		}
		vc.usedSpecs[n] = true
		vc.usedExt["frame axiom for recursive spec predicates (heap closure, A4)"] = true
		var binders, guards, newArgs, oldArgs []string
		for _, c := range si.comps {
			newArgs = append(newArgs, vc.heap(st, c))
			oldArgs = append(oldArgs, oldHeap(c))
		}
		for i, p := range sf.Params {
			v := "|f:" + p.Name + "|"
			srt := sortOfType(si.ptypes[i])
			binders = append(binders, "("+v+" "+srt+")")
			switch kindOf(si.ptypes[i]) {
			case KPtr, KMap:
				guards = append(guards, sx("<", sx("rootOf", v), bound))
			case KSlice:
				guards = append(guards, sx("<", sx("rootOf", sx("sarr", v)), bound))
			}
			newArgs = append(newArgs, v)
			oldArgs = append(oldArgs, v)
		}
		app1 := sx("spec_"+n, newArgs...)
		app0 := sx("spec_"+n, oldArgs...)
		vc.localSpec(n, fmt.Sprintf("(forall (%s) (! (=> %s (= %s %s)) :pattern (%s)))", strings.Join(binders, " "), and(guards...), app1, app0, app1))
	}
}

// specEntryFrame: inside a function that cannot modify pre-existing cells of
// the components a recursive spec predicate reads (its modifies clause does
// not cover them, so every write is to fresh memory, which the frame:
// obligations check), the predicate's value on pre-existing arguments is the
// same in every state as in the entry state.
func (vc *VC) specEntryFrame(sf *SpecFunc, si *specInfo, st *State) {
	if vc.fn == nil || vc.fc == nil || vc.fc.Modifies == nil || vc.curSpec != nil || st.alloc == "|p:alloc|" {
		return
	}
	differs := false
	var key []string
	for _, c := range si.comps {
		h := vc.heap(st, c)
		key = append(key, h)
		if h != vc.entryHeap(c) {
			differs = true
			if foot, whole := vc.footprint(c, "a!"); whole || foot != "false" {
				return
			}
		}
	}
	if !differs {
		return
	}
	k := sf.Name + "(" + strings.Join(key, ",") + ")"
	if vc.declSet["specframe:"+k] {
		return
	}
	vc.declSet["specframe:"+k] = true
	vc.usedExt["frame axiom for recursive spec predicates (heap closure, A4)"] = true
	var binders, guards, newArgs, oldArgs []string
	for _, c := range si.comps {
		newArgs = append(newArgs, vc.heap(st, c))
		oldArgs = append(oldArgs, vc.entryHeap(c))
	}
	for i, p := range sf.Params {
		v := "|f:" + p.Name + "|"
		binders = append(binders, "("+v+" "+sortOfType(si.ptypes[i])+")")
		switch kindOf(si.ptypes[i]) {
		case KPtr, KMap:
			guards = append(guards, sx("<", sx("rootOf", v), "|alloc@0|"))
		case KSlice:
			guards = append(guards, sx("<", sx("rootOf", sx("sarr", v)), "|alloc@0|"))
		}
		newArgs = append(newArgs, v)
		oldArgs = append(oldArgs, v)
	}
	app1 := sx("spec_"+sf.Name, newArgs...)
	app0 := sx("spec_"+sf.Name, oldArgs...)
	vc.facts = append(vc.facts, Fact{blk: -1, text: fmt.Sprintf("(forall (%s) (! (=> %s (= %s %s)) :pattern (%s)))", strings.Join(binders, " "), and(guards...), app1, app0, app1), spec: sf.Name})
}

func (vc *VC) snapshotHeaps(st *State) map[string]string {
	m := make(map[string]string, len(st.heaps))
	for k, v := range st.heaps {
		m[k] = v
	}
	return m
}

// relevantSpecs: recursive spec functions reachable from the contracts of the
// function under verification and of the functions it calls.
func (vc *VC) relevantSpecs() map[string]bool {
	if vc.relSpecs != nil {
		return vc.relSpecs
	}
	vc.relSpecs = map[string]bool{}
	direct := map[string]bool{}
	add := func(fc *FuncContract) {
		if fc == nil {
			return
		}
		var cls []*Clause
		cls = append(cls, fc.Requires...)
		cls = append(cls, fc.Ensures...)
		for _, l := range fc.Loops {
			cls = append(cls, l...)
		}
		for _, c := range cls {
			if c.E != nil {
				specCalls(c.E, vc.prog.contracts.Specs, direct)
			}
		}
	}
	add(vc.fc)
	if vc.fn != nil {
		for _, b := range vc.fn.Blocks {
			for _, ins := range b.Instrs {
				if ci, ok := ins.(ssa.CallInstruction); ok {
					if f := vc.prog.resolveFuncValue(ci.Common().Value); f != nil {
						add(vc.prog.contracts.Funcs[vc.prog.funcKey(f)])
					}
				}
			}
		}
	}
	var visit func(n string)
	visit = func(n string) {
		if vc.relSpecs[n] {
			return
		}
		vc.relSpecs[n] = true
		if sf := vc.prog.contracts.Specs[n]; sf != nil && sf.Body != nil {
			calls := map[string]bool{}
			specCalls(sf.Body, vc.prog.contracts.Specs, calls)
			for c := range calls {
				visit(c)
			}
		}
	}
	for n := range direct {
		visit(n)
	}
	return vc.relSpecs
}

// storeSpecFrames emits frame facts for recursive spec predicates across a
// store (or allocation with zero-initialisation):
//
//	rule A  the written object was allocated in this function and its address
//	        has not been used for anything but loads and stores yet: nothing
//	        allocated before it can reach it (heap closure), so predicates
//	        over earlier objects are unaffected;
//	rule S  for predicates declared "ordered" (their definition only descends
//	        to children allocated after the parent): a store into an object
//	        allocated in this function before the predicate's first argument
//	        cannot affect it, the other pointer arguments being pre-existing.
func (vc *VC) storeSpecFrames(before map[string]string, st *State, alloc *ssa.Alloc, addr string) {
	if vc.fn == nil || vc.preparing {
		return
	}
	changed := map[string]bool{}
	for k, v := range st.heaps {
		if before[k] != v {
			changed[k] = true
		}
	}
	if len(changed) == 0 {
		return
	}
	ruleA := alloc != nil && alloc.Heap || alloc != nil && !vc.isCell(alloc)
	if ruleA && vc.escaped[alloc] {
		ruleA = false
	}
	bound := ""
	if ruleA {
		bound = vc.allocBound[alloc]
		if bound == "" {
			ruleA = false
		}
	}
	var names []string
	for n := range vc.relevantSpecs() {
		sf := vc.prog.contracts.Specs[n]
		if sf != nil && !sf.Opaque && sf.Body != nil && (vc.prog.isRecursiveSpec(n) || sf.NoInline) {
			names = append(names, n)
		}
	}
	sort.Strings(names)
	oldHeap := func(c string) string {
		if h, ok := before[c]; ok {
			return h
		}
		return vc.entryHeap(c)
	}
	for _, n := range names {
		sf := vc.prog.contracts.Specs[n]
		si := vc.specInfoFor(sf)
		touches := false
		for _, c := range si.comps {
			if changed[c] {
				touches = true
			}
		}
		if !touches {
			continue
		}
		ruleS := sf.Ordered && addr != ""
		if !ruleA && !ruleS {
			continue
		}
		vc.usedSpecs[n] = true
		emit := func(useA bool) {
			var binders, guards, newArgs, oldArgs []string
			for _, c := range si.comps {
				newArgs = append(newArgs, vc.heap(st, c))
				oldArgs = append(oldArgs, oldHeap(c))
			}
			for i, p := range sf.Params {
				v := "|f:" + p.Name + "|"
				binders = append(binders, "("+v+" "+sortOfType(si.ptypes[i])+")")
				var r string
				switch kindOf(si.ptypes[i]) {
				case KPtr, KMap:
					r = sx("rootOf", v)
				case KSlice:
					r = sx("rootOf", sx("sarr", v))
				}
				if r != "" {
					if useA {
						guards = append(guards, sx("<", r, bound))
					} else if i == 0 {
						guards = append(guards, sx("<", sx("rootOf", addr), r))
					} else {
						guards = append(guards, sx("<", r, "|alloc@0|"))
					}
				}
				newArgs = append(newArgs, v)
				oldArgs = append(oldArgs, v)
			}
			if !useA {
				guards = append(guards, sx("<=", "|alloc@0|", sx("rootOf", addr)))
				vc.usedExt["frame rule for 'ordered' spec predicates (children allocated after parents, A4)"] = true
			} else {
				vc.usedExt["frame axiom for recursive spec predicates (heap closure, A4)"] = true
			}
			app1 := sx("spec_"+n, newArgs...)
			app0 := sx("spec_"+n, oldArgs...)
			vc.localSpec(n, fmt.Sprintf("(forall (%s) (! (=> %s (= %s %s)) :pattern (%s)))", strings.Join(binders, " "), and(guards...), app1, app0, app1))
		}
		if ruleA {
			emit(true)
		}
		if ruleS {
			emit(false)
		}
	}
}
