package main

import (
	"flag"
	"fmt"
	"go/ast"
	"go/token"
	"strconv"
	"go/types"
	"path/filepath"
	"sort"
	"strings"

	"golang.org/x/tools/go/ssa"
)

// The sweep is the syntactic part of C06/C14: over the SSA of everything
// reachable from the library entry points it lists every source of
// nondeterminism or hidden state. Each map-range site must be covered by a
// function contract that carries a "det" option naming why the result does not
// depend on the iteration order; anything else found is reported.

type sweepFinding struct {
	Kind string
	Func string
	What string
}

// reachable computes the functions of the repository reachable from roots
// through static calls, closures and method values.
func (P *Program) reachable(roots []*ssa.Function) map[*ssa.Function]bool {
	seen := map[*ssa.Function]bool{}
	var visit func(f *ssa.Function)
	visit = func(f *ssa.Function) {
		if f == nil || seen[f] || !P.inRepo(f) {
			return
		}
		seen[f] = true
		for _, b := range f.Blocks {
			for _, ins := range b.Instrs {
				var ops []*ssa.Value
				for _, op := range ins.Operands(ops) {
					if op == nil || *op == nil {
						continue
					}
					switch v := (*op).(type) {
					case *ssa.Function:
						visit(v)
					case *ssa.MakeClosure:
						visit(v.Fn.(*ssa.Function))
					}
				}
				if mc, ok := ins.(*ssa.MakeClosure); ok {
					visit(mc.Fn.(*ssa.Function))
				}
			}
		}
		for _, an := range f.AnonFuncs {
			visit(an)
		}
	}
	for _, r := range roots {
		visit(r)
	}
	return seen
}

func (P *Program) sweepRoots() []*ssa.Function {
	var roots []*ssa.Function
	want := []string{
		"github.com/maruel/panicparse/v2/stack.ScanSnapshot",
		"github.com/maruel/panicparse/v2/stack.(*Snapshot).Aggregate",
		"github.com/maruel/panicparse/v2/stack.(*Snapshot).IsRace",
		"github.com/maruel/panicparse/v2/stack.(*Aggregated).ToHTML",
		"github.com/maruel/panicparse/v2/stack.(*Snapshot).ToHTML",
		"github.com/maruel/panicparse/v2/stack.funcClass",
		"github.com/maruel/panicparse/v2/stack.pkgURL",
		"github.com/maruel/panicparse/v2/stack.srcURL",
		"github.com/maruel/panicparse/v2/stack.symbol",
		"github.com/maruel/panicparse/v2/stack.(*Arg).String",
		"github.com/maruel/panicparse/v2/stack.(*Args).String",
		"github.com/maruel/panicparse/v2/stack.(*Signature).SleepString",
		"github.com/maruel/panicparse/v2/internal.process",
	}
	for _, k := range want {
		if f := P.funcs[k]; f != nil {
			roots = append(roots, f)
		}
	}
	return roots
}

// sweep returns the findings and the list of map-range sites.
func (P *Program) sweep() (findings []sweepFinding, mapRanges []string, nfuncs int) {
	reach := P.reachable(P.sweepRoots())
	nfuncs = len(reach)
	var fns []*ssa.Function
	for f := range reach {
		fns = append(fns, f)
	}
	sort.Slice(fns, func(i, j int) bool { return fns[i].String() < fns[j].String() })
	for _, f := range fns {
		name := f.RelString(f.Pkg.Pkg)
		key := P.funcKey(f)
		fc := P.contracts.Funcs[key]
		nRange := 0
		for _, b := range f.Blocks {
			for _, ins := range b.Instrs {
				switch x := ins.(type) {
				case *ssa.Range:
					if _, ok := x.X.Type().Underlying().(*types.Map); ok {
						nRange++
						site := fmt.Sprintf("%s#%d", name, nRange)
						mapRanges = append(mapRanges, site)
						if fc == nil || fc.Opts["det"] == "" {
							findings = append(findings, sweepFinding{"map-range-without-determinacy-contract", name, site + ": range over a map, and the function's contract has no 'option det=' justification"})
						}
					}
				}
				// a package-level variable whose address is used for anything but a
				// direct load (passed on, stored, field-addressed for a write):
				// shared mutable state reachable from the library entry points
				if f.Name() != "init" {
					var ops []*ssa.Value
					for _, op := range ins.Operands(ops) {
						if op == nil || *op == nil {
							continue
						}
						g, ok := (*op).(*ssa.Global)
						if !ok || !strings.HasPrefix(g.Pkg.Pkg.Path(), "github.com/maruel/panicparse") {
							continue
						}
						if u, ok := ins.(*ssa.UnOp); ok && u.Op == token.MUL {
							continue // plain load
						}
						if st, ok := ins.(*ssa.Store); ok && st.Addr == *op {
							continue // reported as store-to-package-variable
						}
						if _, ok := ins.(*ssa.DebugRef); ok {
							continue
						}
						if v, ok := ins.(ssa.Value); ok && onlyLoadedFrom(v, 0) {
							continue // element/field address used for reading only
						}
						findings = append(findings, sweepFinding{"store-to-package-variable", name, "takes the address of the package-level variable " + g.Name() + " (it can be written through that pointer)"})
					}
				}
				switch x := ins.(type) {
				case *ssa.MapUpdate:
					if g := globalBehind(x.Map); g != nil && f.Name() != "init" {
						findings = append(findings, sweepFinding{"store-to-package-variable", name, "updates the package-level map " + g.Name()})
					}
				case *ssa.Store:
					if g, ok := x.Addr.(*ssa.Global); ok && f.Name() != "init" {
						findings = append(findings, sweepFinding{"store-to-package-variable", name, "writes package-level variable " + g.Name()})
					}
				case *ssa.Select:
					findings = append(findings, sweepFinding{"select", name, "select statement"})
				case *ssa.Go:
					findings = append(findings, sweepFinding{"goroutine", name, "go statement"})
				case *ssa.Convert:
					if b, ok := x.Type().Underlying().(*types.Basic); ok && b.Kind() == types.Uintptr {
						findings = append(findings, sweepFinding{"pointer-to-integer", name, "conversion to uintptr"})
					}
				case ssa.CallInstruction:
					if callee := x.Common().StaticCallee(); callee != nil && callee.Pkg != nil {
						full := callee.Pkg.Pkg.Path() + "." + callee.Name()
						if callee.Name() == "unsafeString" && P.inRepo(callee) {
							// the string aliases the byte slice (the reader's
							// buffer): it may only be handed to a parser, never
							// stored or returned
							if v, ok := x.(ssa.Value); ok && v.Referrers() != nil {
								for _, r := range *v.Referrers() {
									okUse := false
									if ci, ok := r.(ssa.CallInstruction); ok {
										if c2 := ci.Common().StaticCallee(); c2 != nil && c2.Pkg != nil && c2.Pkg.Pkg.Path() == "strconv" {
											okUse = true
										}
									}
									if _, ok := r.(*ssa.DebugRef); ok {
										okUse = true
									}
									if !okUse {
										findings = append(findings, sweepFinding{"unsafe-string-escapes", name, "the result of unsafeString is used by something other than a strconv call: it aliases the read buffer"})
									}
								}
							}
						}
						switch {
						case full == "time.Now":
							if name != "toHTML" {
								findings = append(findings, sweepFinding{"clock", name, "calls time.Now"})
							}
						case strings.HasPrefix(full, "math/rand."):
							findings = append(findings, sweepFinding{"random", name, "calls " + full})
						}
					}
				}
			}
		}
		// stores through element/field addresses derived from package-level
		// byte-slice "constants" (they are shared between calls)
		for _, b := range f.Blocks {
			for _, ins := range b.Instrs {
				if st, ok := ins.(*ssa.Store); ok {
					if ia, ok := st.Addr.(*ssa.IndexAddr); ok {
						if ld, ok := ia.X.(*ssa.UnOp); ok && ld.Op == token.MUL {
							if g, ok := ld.X.(*ssa.Global); ok {
								findings = append(findings, sweepFinding{"store-into-package-slice", name, "writes an element of " + g.Name()})
							}
						}
					}
				}
			}
		}
	}
	return
}

// sweepObligations turns the sweep into obligations of C06: one per map-range
// site (the function must carry a determinacy contract) and one per kind of
// hidden-state source (none may be reachable).
func (P *Program) sweepObligations() []*Obligation {
	findings, ranges, n := P.sweep()
	var obs []*Obligation
	bySite := map[string]string{}
	other := map[string][]string{}
	for _, f := range findings {
		if f.Kind == "map-range-without-determinacy-contract" {
			bySite[strings.SplitN(f.What, ":", 2)[0]] = f.What
		} else {
			other[f.Kind] = append(other[f.Kind], f.Func+": "+f.What)
		}
	}
	for _, site := range ranges {
		obs = append(obs, &Obligation{Name: "sweep/map-range-has-determinacy-contract:" + site, Class: "det", Props: []string{"C06"}, Func: site, static: true, staticFail: bySite[site]})
	}
	for _, kind := range []string{"store-to-package-variable", "store-into-package-slice", "select", "goroutine", "pointer-to-integer", "clock", "random", "unsafe-string-escapes"} {
		props := []string{"C06", "C14"}
		if kind == "unsafe-string-escapes" {
			props = []string{"C01", "C08", "C09", "C14"}
		}
		obs = append(obs, &Obligation{Name: fmt.Sprintf("sweep/no-%s", kind), Class: "det", Props: props, Func: fmt.Sprintf("%d reachable functions", n), static: true, staticFail: strings.Join(other[kind], "; ")})
	}
	return obs
}

func cmdSweep(args []string) int {
	fs := flag.NewFlagSet("sweep", flag.ExitOnError)
	repo := fs.String("repo", "/repo", "repository")
	fs.Parse(args)
	P, err := loadProgram(*repo, filepath.Join(verifDir(), "lib"))
	if err != nil {
		fmt.Println("ERROR:", err)
		return 2
	}
	f, mr, n := P.sweep()
	fmt.Printf("functions reachable: %d\nmap range sites: %v\n", n, mr)
	for _, x := range f {
		fmt.Printf("FINDING %s in %s: %s\n", x.Kind, x.Func, x.What)
	}
	if len(f) > 0 {
		return 1
	}
	return 0
}

// patternObligations: the assumed contracts of the package-level regular
// expressions (and the byte-slice constants the scanner compares lines with)
// were written for specific literals, recorded as "pattern" clauses in
// /verif/lib. A changed literal invalidates those assumptions: one obligation
// per recorded literal compares it with the source.
func (P *Program) patternObligations() []*Obligation {
	actual := map[string]string{}
	for _, p := range P.pkgs {
		if !strings.HasPrefix(p.PkgPath, "github.com/maruel/panicparse") {
			continue
		}
		for _, f := range p.Syntax {
			for _, d := range f.Decls {
				gd, ok := d.(*ast.GenDecl)
				if !ok || gd.Tok != token.VAR {
					continue
				}
				for _, sp := range gd.Specs {
					vs, ok := sp.(*ast.ValueSpec)
					if !ok || len(vs.Names) != 1 || len(vs.Values) != 1 {
						continue
					}
					call, ok := vs.Values[0].(*ast.CallExpr)
					if !ok || len(call.Args) != 1 {
						continue
					}
					lit, ok := call.Args[0].(*ast.BasicLit)
					if !ok || lit.Kind != token.STRING {
						continue
					}
					val, err := strconv.Unquote(lit.Value)
					if err != nil {
						continue
					}
					actual[p.Name+"."+vs.Names[0].Name] = val
				}
			}
		}
	}
	var names []string
	for n := range P.contracts.Patterns {
		names = append(names, n)
	}
	sort.Strings(names)
	var obs []*Obligation
	for _, n := range names {
		want := P.contracts.Patterns[n]
		fail := ""
		if got, ok := actual[n]; !ok {
			fail = fmt.Sprintf("the package-level literal %s no longer exists; the assumed contracts written for %q cannot be relied on", n, want)
		} else if got != want {
			fail = fmt.Sprintf("%s is now %q; the assumed contracts in /verif/lib were written for %q and have to be re-validated", n, got, want)
		}
		obs = append(obs, &Obligation{Name: "sweep/literal-unchanged:" + n, Class: "det", Props: []string{"C01", "C02", "C03", "C07", "C08", "C17", "C18"}, Func: n, static: true, staticFail: fail})
	}
	return obs
}

// globalBehind follows loads, field and index addresses back to a package-level
// variable, if the value comes from one.
func globalBehind(v ssa.Value) *ssa.Global {
	for i := 0; i < 8; i++ {
		switch x := v.(type) {
		case *ssa.Global:
			return x
		case *ssa.UnOp:
			v = x.X
		case *ssa.FieldAddr:
			v = x.X
		case *ssa.IndexAddr:
			v = x.X
		case *ssa.Field:
			v = x.X
		default:
			return nil
		}
	}
	return nil
}

// onlyLoadedFrom: v is a field/element address (chain) whose every use is a load.
func onlyLoadedFrom(v ssa.Value, depth int) bool {
	switch v.(type) {
	case *ssa.FieldAddr, *ssa.IndexAddr:
	default:
		return false
	}
	if depth > 6 || v.Referrers() == nil {
		return false
	}
	for _, r := range *v.Referrers() {
		switch x := r.(type) {
		case *ssa.UnOp:
			if x.Op != token.MUL {
				return false
			}
		case *ssa.DebugRef:
		case *ssa.FieldAddr:
			if !onlyLoadedFrom(x, depth+1) {
				return false
			}
		case *ssa.IndexAddr:
			if !onlyLoadedFrom(x, depth+1) {
				return false
			}
		default:
			return false
		}
	}
	return true
}
