package main

func cmdSweep(args []string) int { return 0 }
