package main

import (
	"fmt"
	"go/constant"
	"go/token"
	"go/types"
	"os"
	"os/exec"
	"regexp"
	"sort"
	"strings"
	"sync"

	"golang.org/x/tools/go/ssa"
)

type Fact struct {
	blk, seq int // blk == -1: global
	text     string
	spec     string // frame fact of this spec function: only needed where the function occurs
	label    string // assumed instance of the labelled contract clause
}

type Obligation struct {
	Name       string
	Class      string // safe pre post inv-init inv-pres dec frame lemma cover det
	Props      []string
	Func       string
	vc         *VC
	blk, seq   int
	reach      string
	goal       string
	ExpectSat  bool
	raw        string // for lemma obligations: complete query body
	Clause     *Clause
	Pos        string
	ShortLimit bool
	errText    string
	static     bool   // decided by the sweep, not by a solver
	staticFail string // non-empty: what the sweep found
	pairBefore *Obligation // vacuity pair: the same point before an assumed contract was applied
}

// VC holds the verification conditions of one function.
type VC struct {
	prog             *Program
	fn               *ssa.Function
	fc               *FuncContract
	decls            []string
	declSet          map[string]bool
	facts            []Fact
	obs              []*Obligation
	nconst           int
	seq              int
	curBlk           int
	compSorts        map[string]string
	touched          map[string]bool
	strLits          map[string]string
	regs             map[ssa.Value]Val
	params           map[string]Val
	results          []Val
	order            []*ssa.BasicBlock
	topo             map[*ssa.BasicBlock]int
	reachB           map[*ssa.BasicBlock]string
	edge             map[[2]int]string
	out              map[*ssa.BasicBlock]*State
	anc              [][]bool
	loops            map[*ssa.BasicBlock]*loopInfo
	loopList         []*loopInfo
	entry            *State
	counters         map[string]int
	curReach         string
	usedExt          map[string]bool
	usedSpecs        map[string]bool
	retCount         int
	errBuf           []string
	iterN            int
	specTab          *specTable
	specRecorder     func(string) string
	curSpec          *specInfo
	nilChecked       map[string][]*ssa.BasicBlock
	curIns           ssa.Instruction
	retNames         map[*ssa.Return]string
	retSeen          map[string]int
	lemmaPkg         *types.Package
	preparing        bool
	preInstr         *State
	contractErr      bool
	deadCache        map[string]map[int]bool
	deadMu           sync.Mutex
	obligeState      *State
	escaped          map[*ssa.Alloc]bool
	allocBound       map[*ssa.Alloc]string
	relSpecs         map[string]bool
	warnings         []string
	closureParam     *Val
	missing          []missingClause
	pendingGhostInit bool
	ghostT           map[string]*GT
	ghostScalar      map[string]types.Type
	updatesAt        map[ssa.Instruction][]*UpdateClause
	assertsAt        map[ssa.Instruction][]*AssertClause
	lastGhostResults map[string]Val
}

type loopInfo struct {
	header       *ssa.BasicBlock
	body         map[*ssa.BasicBlock]bool
	back         []*ssa.BasicBlock
	ordinal      int
	modCells     map[*ssa.Alloc]bool
	modComps     map[string]bool
	allocs       bool
	clauses      []*Clause
	modPseudo    map[string]bool
	modAllPseudo bool
	headSt       *State // state at the loop head (after havoc)
	decVals      []string
}

func (vc *VC) fresh(prefix, sort string) string {
	vc.nconst++
	p := strings.NewReplacer("|", "", " ", "_", "\\", "_").Replace(prefix)
	name := fmt.Sprintf("|%s!%d|", p, vc.nconst)
	vc.declare(name, sort)
	return name
}

func (vc *VC) declare(name, sort string) {
	if vc.declSet[name] {
		return
	}
	vc.declSet[name] = true
	vc.decls = append(vc.decls, fmt.Sprintf("(declare-const %s %s)", name, sort))
}

func (vc *VC) declareRaw(key, text string) {
	if vc.declSet[key] {
		return
	}
	vc.declSet[key] = true
	vc.decls = append(vc.decls, text)
}

// define adds a definitional fact for a fresh constant, positioned at the
// current program point (it is only needed by obligations downstream).
func (vc *VC) define(c, term string) {
	vc.seq++
	vc.facts = append(vc.facts, Fact{blk: vc.curBlk, seq: vc.seq, text: sx("=", c, term)})
}

// localSpec adds a frame fact about one spec function.
func (vc *VC) localSpec(spec, text string) {
	vc.seq++
	vc.facts = append(vc.facts, Fact{blk: vc.curBlk, seq: vc.seq, text: text, spec: spec})
}

// local adds an unguarded fact about symbols created at the current point.
func (vc *VC) local(text string) {
	if text == "true" {
		return
	}
	vc.seq++
	vc.facts = append(vc.facts, Fact{blk: vc.curBlk, seq: vc.seq, text: text})
}

func (vc *VC) global(text string) {
	if text == "true" {
		return
	}
	vc.facts = append(vc.facts, Fact{blk: -1, seq: 0, text: text})
}

// assume adds a positioned assumption guarded by the current block's reach.
func (vc *VC) assume(text string) { vc.assumeL(text, "") }

func (vc *VC) assumeL(text, label string) {
	if text == "true" {
		return
	}
	for _, part := range splitAnd(text) {
		vc.seq++
		vc.facts = append(vc.facts, Fact{blk: vc.curBlk, seq: vc.seq, text: implies(vc.curReach, part), label: label})
	}
}

// splitAnd splits a top-level (and ...) s-expression into its conjuncts.
func splitAnd(g string) []string {
	// forall x. (G => (and A B))  ==>  forall x. (G => A), forall x. (G => B)
	if strings.HasPrefix(g, "(forall (") {
		// find end of binder list
		depth := 0
		end := -1
		for i := 8; i < len(g); i++ {
			if g[i] == '(' {
				depth++
			} else if g[i] == ')' {
				depth--
				if depth == 0 {
					end = i
					break
				}
			}
		}
		if end > 0 && end+2 < len(g) {
			binders := g[8 : end+1]
			body := strings.TrimSpace(g[end+1 : len(g)-1])
			if strings.HasPrefix(body, "(=> ") {
				parts := topLevelArgs(body[4 : len(body)-1])
				if len(parts) == 2 {
					cons := splitAnd(parts[1])
					if len(cons) > 1 {
						var out []string
						for _, c := range cons {
							out = append(out, "(forall "+binders+" (=> "+parts[0]+" "+c+"))")
						}
						return out
					}
				}
			} else if strings.HasPrefix(body, "(and ") {
				cons := splitAnd(body)
				if len(cons) > 1 {
					var out []string
					for _, c := range cons {
						out = append(out, "(forall "+binders+" "+c+")")
					}
					return out
				}
			}
		}
		return []string{g}
	}
	if !strings.HasPrefix(g, "(and ") {
		return []string{g}
	}
	body := g[5 : len(g)-1]
	var parts []string
	depth := 0
	start := 0
	inBar := false
	for i := 0; i < len(body); i++ {
		c := body[i]
		if c == '|' {
			inBar = !inBar
		}
		if inBar {
			continue
		}
		switch c {
		case '(':
			depth++
		case ')':
			depth--
		case ' ':
			if depth == 0 {
				if i > start {
					parts = append(parts, body[start:i])
				}
				start = i + 1
			}
		}
	}
	if start < len(body) {
		parts = append(parts, body[start:])
	}
	var out []string
	for _, p := range parts {
		out = append(out, splitAnd(p)...)
	}
	return out
}

// topLevelArgs splits the arguments of an s-expression body.
func topLevelArgs(body string) []string {
	var parts []string
	depth := 0
	start := 0
	inBar := false
	for i := 0; i < len(body); i++ {
		c := body[i]
		if c == '|' {
			inBar = !inBar
		}
		if inBar {
			continue
		}
		switch c {
		case '(':
			depth++
		case ')':
			depth--
		case ' ':
			if depth == 0 {
				if i > start {
					parts = append(parts, body[start:i])
				}
				start = i + 1
			}
		}
	}
	if start < len(body) {
		parts = append(parts, body[start:])
	}
	return parts
}

func (vc *VC) oblige(class, name string, props []string, goal string, cl *Clause) *Obligation {
	hyp := "true"
	if cl != nil && len(cl.Uses) > 0 && vc.obligeState != nil {
		var hs []string
		for _, u := range cl.Uses {
			hs = append(hs, vc.lemmaFact(strings.TrimSpace(u), vc.obligeState))
		}
		hyp = and(hs...)
	}
	if class == "post" || class == "inv-init" || class == "inv-pres" || class == "pre" {
		if parts := splitAnd(goal); len(parts) > 1 {
			var last *Obligation
			for i, p := range parts {
				last = vc.oblige1(class, fmt.Sprintf("%s&%d", name, i), props, implies(hyp, p), cl)
			}
			return last
		}
	}
	return vc.oblige1(class, name, props, implies(hyp, goal), cl)
}

// coverCalls (thorough tier): after every call whose contract is assumed, check
// that the assumptions have not become contradictory.
var coverCalls bool

// coverQuick: one second per consistency cover instead of three.
var coverQuick bool

// coverPoint makes a reachability obligation for the current program point
// (not recorded; the caller decides).
func (vc *VC) coverPoint(name string) *Obligation {
	vc.seq++
	key := "cover:" + name
	vc.counters[key]++
	if n := vc.counters[key]; n > 1 {
		name = fmt.Sprintf("%s#%d", name, n)
	}
	return &Obligation{Name: vc.fn.RelString(vc.fn.Pkg.Pkg) + "/cover:" + name, Class: "cover", Props: []string{"*"}, Func: vc.fn.String(), vc: vc, blk: vc.curBlk, seq: vc.seq, reach: vc.curReach, goal: "true", ExpectSat: true}
}

func (vc *VC) oblige1(class, name string, props []string, goal string, cl *Clause) *Obligation {
	vc.seq++
	key := class + ":" + name
	vc.counters[key]++
	if n := vc.counters[key]; n > 1 {
		name = fmt.Sprintf("%s#%d", name, n)
	}
	pos := ""
	if vc.curIns != nil && vc.curIns.Pos().IsValid() {
		p := vc.prog.fset.Position(vc.curIns.Pos())
		pos = fmt.Sprintf("%s:%d", p.Filename, p.Line)
	}
	ob := &Obligation{Pos: pos, Name: vc.fn.RelString(vc.fn.Pkg.Pkg) + "/" + class + ":" + name, Class: class, Props: props, Func: vc.fn.String(), vc: vc, blk: vc.curBlk, seq: vc.seq, reach: vc.curReach, goal: goal, Clause: cl}
	if goal == "true" {
		return ob // trivially discharged, not recorded
	}
	vc.obs = append(vc.obs, ob)
	return ob
}

var specNameRe = regexp.MustCompile(`spec_([A-Za-z0-9_]+)`)

var baseRe = regexp.MustCompile(`\|((?:[hmg]_)?(?:H:|E:|MD:|MV:|ML:|G:)[^|!@]*|[hmg]_[A-Za-z][A-Za-z0-9]*)(?:[!@][^|]*)?\|`)

// symbolBases extracts the heap components, ghost variables and spec
// functions a formula talks about (version suffixes stripped).
func symbolBases(t string, into map[string]bool) {
	for _, m := range baseRe.FindAllStringSubmatch(t, -1) {
		b := m[1]
		for _, p := range []string{"h_", "m_", "g_"} {
			b = strings.TrimPrefix(b, p)
		}
		into[b] = true
	}
	for _, m := range specNameRe.FindAllStringSubmatch(t, -1) {
		into["spec:"+m[1]] = true
	}
}

func (ob *Obligation) Query() string { return ob.QueryLevel(0) }

// QueryLevel renders the query; level 1 and 2 keep only the quantified
// assumptions that share a heap component, ghost variable or spec function
// with the goal (directly, or through one more step). Dropping assumptions is
// always sound; level 0 keeps everything.
func (ob *Obligation) QueryLevel(level int) string {
	if ob.raw != "" {
		return ob.raw
	}
	vc := ob.vc
	var visible []Fact
	mentioned := map[string]bool{}
	note := func(t string) {
		for _, m := range specNameRe.FindAllStringSubmatch(t, -1) {
			mentioned[m[1]] = true
		}
	}
	dead := ob.deadBlocks()
	for _, f := range vc.facts {
		if f.blk == -1 || (f.blk == ob.blk && f.seq < ob.seq) || (f.blk != ob.blk && f.blk >= 0 && vc.anc[f.blk][ob.blk]) {
			if f.blk >= 0 && dead[f.blk] && (strings.Contains(f.text, "(forall ") || strings.Contains(f.text, "(exists ") || strings.Contains(f.text, "spec_")) {
				// only the expensive facts of an infeasible block are dropped;
				// its edge and value definitions stay so that control flow
				// remains fully constrained
				continue
			}
			visible = append(visible, f)
			if f.spec == "" {
				note(f.text)
			}
		}
	}
	note(ob.goal)
	note(ob.reach)
	needed := vc.specClosure(mentioned)
	var b strings.Builder
	b.WriteString(prelude)
	b.WriteString(preludeExtra)
	for _, d := range vc.decls {
		b.WriteString(d)
		b.WriteByte('\n')
	}
	var rel map[string]bool
	if level > 0 {
		rel = map[string]bool{}
		symbolBases(ob.goal, rel)
		for step := 1; step < level; step++ {
			add := map[string]bool{}
			for _, f := range visible {
				if !strings.Contains(f.text, "(forall ") {
					continue
				}
				fb := map[string]bool{}
				symbolBases(f.text, fb)
				hit := false
				for k := range fb {
					if rel[k] {
						hit = true
					}
				}
				if hit {
					for k := range fb {
						add[k] = true
					}
				}
			}
			for k := range add {
				rel[k] = true
			}
		}
	}
	if rel != nil {
		// at a relevance level only the spec functions connected to the goal
		// get their frame facts
		goalSpecs := map[string]bool{}
		for k := range rel {
			if strings.HasPrefix(k, "spec:") {
				goalSpecs[k[5:]] = true
			}
		}
		frameSpecs := vc.specClosure(goalSpecs)
		for n := range needed {
			if !frameSpecs[n] {
				// keep the definition (other facts may mention it) but drop its frames
				defer func(n string) {}(n)
			}
		}
		all := map[string]bool{}
		for n := range needed {
			all[n] = true
		}
		for n := range frameSpecs {
			all[n] = true
		}
		b.WriteString(vc.specDeclsFor(vc.specClosure(all)))
		needed = frameSpecs
	} else {
		b.WriteString(vc.specDeclsFor(needed))
	}
	var needs map[string]bool
	if level != 0 && ob.Clause != nil && len(ob.Clause.Needs) > 0 {
		needs = map[string]bool{}
		for _, n := range ob.Clause.Needs {
			needs[strings.TrimSpace(n)] = true
		}
	}
	for _, f := range visible {
		if f.spec != "" && !needed[f.spec] {
			continue
		}
		if needs != nil && f.label != "" && !needs[f.label] {
			continue
		}
		if rel != nil && strings.Contains(f.text, "(forall ") && !(needs != nil && f.label != "" && needs[f.label]) {
			fb := map[string]bool{}
			symbolBases(f.text, fb)
			hit := false
			for k := range fb {
				if rel[k] {
					hit = true
				}
			}
			if !hit {
				continue
			}
		}
		b.WriteString("(assert ")
		b.WriteString(f.text)
		b.WriteString(")\n")
	}
	b.WriteString("(assert " + ob.reach + ")\n")
	if ob.ExpectSat {
		b.WriteString("(assert " + ob.goal + ")\n")
	} else {
		b.WriteString("(assert (not " + ob.goal + "))\n")
	}
	b.WriteString("(check-sat)\n")
	return b.String()
}

const preludeExtra = `(define-fun wfslice ((s Slice)) Bool (and (<= 0 (soff s)) (<= 0 (slen s)) (<= (slen s) (scap s)) (<= (scap s) 9223372036854775807) (=> (= (sarr s) nil) (and (= (slen s) 0) (= (scap s) 0) (= (soff s) 0)))))
(define-fun umod ((x Int) (m Int)) Int (mod x m))
`

// ---------- driver for one function ----------

func newVC(prog *Program, fn *ssa.Function, fc *FuncContract) *VC {
	return &VC{prog: prog, fn: fn, fc: fc, declSet: map[string]bool{}, compSorts: map[string]string{}, touched: map[string]bool{},
		strLits: map[string]string{}, regs: map[ssa.Value]Val{}, params: map[string]Val{}, topo: map[*ssa.BasicBlock]int{},
		reachB: map[*ssa.BasicBlock]string{}, edge: map[[2]int]string{}, out: map[*ssa.BasicBlock]*State{}, loops: map[*ssa.BasicBlock]*loopInfo{},
		counters: map[string]int{}, usedExt: map[string]bool{}, usedSpecs: map[string]bool{}}
}

// generate builds all obligations of the function. It returns an error for
// constructs outside the supported subset.
func (vc *VC) generate() (err error) {
	defer func() {
		if r := recover(); r != nil {
			if u, ok := r.(unsupportedErr); ok {
				err = fmt.Errorf("%s: %v", vc.fn.String(), u)
				return
			}
			panic(r)
		}
	}()
	fn := vc.fn
	if len(fn.Blocks) == 0 {
		return fmt.Errorf("%s: no body", fn)
	}
	vc.findLoops()
	vc.topoOrder()
	vc.declare("|alloc@0|", "Int")
	vc.entry = &State{cells: map[*ssa.Alloc]Val{}, heaps: map[string]string{}, pseudo: map[string]string{}, alloc: "|alloc@0|"}
	vc.curBlk = 0
	vc.curReach = "true"
	vc.planUpdates()
	vc.pendingGhostInit = true
	st := vc.entry.clone()
	// parameters and free variables
	for _, p := range fn.Params {
		v := vc.freshVal("p_"+p.Name(), p.Type())
		if vc.fc != nil && vc.fc.Opts["closure"] != "" {
			// "option closure=param:fn": inside the body the parameter is the
			// closure fn with symbolic bindings (every call site is checked to
			// pass exactly that closure)
			pf := strings.SplitN(vc.fc.Opts["closure"], ":", 2)
			if len(pf) == 2 && pf[0] == p.Name() {
				var target *ssa.Function
				for _, f := range vc.prog.funcs {
					if f.Name() == pf[1] && f.Pkg == fn.Pkg {
						target = f
					}
				}
				if target == nil {
					panic(unsupported("closure %s named by the contract does not exist", pf[1]))
				}
				v = Val{K: KFunc, T: p.Type(), Fn: target, S: "1"}
				for _, fv := range target.FreeVars {
					pt := fv.Type().(*types.Pointer).Elem()
					b := Val{K: KPtr, T: fv.Type(), S: vc.fresh("cl_"+fv.Name(), "Addr")}
					if isScalarType(pt) {
						b.Heap = vc.regComp(elemComp(pt), sortOfType(pt))
					}
					vc.assume(and(sx("<", sx("rootOf", b.S), st.alloc), sx("<=", "0", sx("rootOf", b.S))))
					v.Fs = append(v.Fs, b)
				}
				vc.closureParam = &v
			}
		}
		vc.regs[p] = v
		vc.params[p.Name()] = v
		vc.assume(vc.typeAssume(v, st.alloc))
	}
	for _, fv := range fn.FreeVars {
		// a free variable is a pointer to a captured (escaping) cell
		pt := fv.Type().(*types.Pointer).Elem()
		v := Val{K: KPtr, T: fv.Type(), S: vc.fresh("fv_"+fv.Name(), "Addr")}
		if isScalarType(pt) {
			v.Heap = vc.regComp(elemComp(pt), sortOfType(pt))
		}
		vc.regs[fv] = v
		vc.assume(and(sx("<", sx("rootOf", v.S), st.alloc), sx("<=", "0", sx("rootOf", v.S))))
	}
	// requires
	if vc.fc != nil {
		env := vc.contractEnv(nil)
		for _, c := range vc.fc.Requires {
			vc.assume(vc.evalBool(c.E, env, st, st))
		}
	}
	vc.initGhosts(st)
	for k, v := range st.pseudo {
		vc.entry.pseudo[k] = v
	}
	// cover: the preconditions are satisfiable
	cv := vc.oblige("cover", "requires", []string{"*"}, "true", nil)
	cv.ExpectSat = true
	vc.obs = append(vc.obs, cv)

	for _, b := range vc.order {
		vc.execBlock(b, st)
		st = nil
	}
	return nil
}

func (vc *VC) findLoops() {
	fn := vc.fn
	for _, b := range fn.Blocks {
		for _, p := range b.Preds {
			if b.Dominates(p) {
				li := vc.loops[b]
				if li == nil {
					li = &loopInfo{header: b, body: map[*ssa.BasicBlock]bool{b: true}, modCells: map[*ssa.Alloc]bool{}, modComps: map[string]bool{}, modPseudo: map[string]bool{}}
					vc.loops[b] = li
					vc.loopList = append(vc.loopList, li)
				}
				li.back = append(li.back, p)
				// collect body: reverse reachability from p until b
				var stack []*ssa.BasicBlock
				if !li.body[p] {
					li.body[p] = true
					stack = append(stack, p)
				}
				for len(stack) > 0 {
					x := stack[len(stack)-1]
					stack = stack[:len(stack)-1]
					for _, q := range x.Preds {
						if !li.body[q] {
							li.body[q] = true
							stack = append(stack, q)
						}
					}
				}
			}
		}
	}
	sort.Slice(vc.loopList, func(i, j int) bool { return vc.loopList[i].header.Index < vc.loopList[j].header.Index })
	for i, li := range vc.loopList {
		li.ordinal = i
		if vc.fc != nil {
			li.clauses = vc.fc.Loops[i]
		}
	}
	if vc.fc != nil {
		for n, cs := range vc.fc.Loops {
			if n >= len(vc.loopList) {
				for _, c := range cs {
					if c.Kind != "invariant" {
						continue
					}
					lbl := c.Label
					if lbl == "" {
						lbl = "inv"
					}
					vc.missing = append(vc.missing, missingClause{Name: fmt.Sprintf("inv-init:%s@loop%d", lbl, n), Props: c.Props, Why: fmt.Sprintf("the contract annotates loop %d but the function has only %d loops", n, len(vc.loopList)), C: c})
				}
			}
		}
	}
}

// missingClause is a contract clause whose program point no longer exists in
// the code; it is reported as an undischarged obligation.
type missingClause struct {
	Name  string
	Props []string
	Why   string
	C     *Clause
}

func (vc *VC) isBackEdge(p, b *ssa.BasicBlock) bool {
	li := vc.loops[b]
	if li == nil {
		return false
	}
	for _, x := range li.back {
		if x == p {
			return true
		}
	}
	return false
}

func (vc *VC) topoOrder() {
	fn := vc.fn
	indeg := map[*ssa.BasicBlock]int{}
	for _, b := range fn.Blocks {
		for _, p := range b.Preds {
			if !vc.isBackEdge(p, b) {
				indeg[b]++
			}
		}
	}
	var queue []*ssa.BasicBlock
	for _, b := range fn.Blocks {
		if indeg[b] == 0 && (b == fn.Blocks[0]) {
			queue = append(queue, b)
		}
	}
	for len(queue) > 0 {
		// pick lowest index for determinism
		sort.Slice(queue, func(i, j int) bool { return queue[i].Index < queue[j].Index })
		b := queue[0]
		queue = queue[1:]
		vc.topo[b] = len(vc.order)
		vc.order = append(vc.order, b)
		for _, s := range b.Succs {
			if vc.isBackEdge(b, s) {
				continue
			}
			indeg[s]--
			if indeg[s] == 0 {
				queue = append(queue, s)
			}
		}
	}
	n := len(vc.order)
	vc.anc = make([][]bool, n)
	for i := range vc.anc {
		vc.anc[i] = make([]bool, n)
	}
	for i, b := range vc.order {
		for _, s := range b.Succs {
			if vc.isBackEdge(b, s) {
				continue
			}
			j, ok := vc.topo[s]
			if !ok {
				continue
			}
			vc.anc[i][j] = true
		}
	}
	// transitive closure in topological order
	for j := 0; j < n; j++ {
		for i := 0; i < j; i++ {
			if vc.anc[i][j] {
				for k := 0; k < i; k++ {
					if vc.anc[k][i] {
						vc.anc[k][j] = true
					}
				}
			}
		}
	}
}

// edgeCond returns the condition under which control goes from p to its
// idx-th successor, in terms of p's terminating instruction.
func (vc *VC) edgeCond(p *ssa.BasicBlock, succIdx int) string {
	last := p.Instrs[len(p.Instrs)-1]
	if iff, ok := last.(*ssa.If); ok {
		c := vc.val(iff.Cond).S
		if succIdx == 0 {
			return c
		}
		return not(c)
	}
	return "true"
}

func succIndex(p, b *ssa.BasicBlock, nth int) int {
	n := 0
	for i, s := range p.Succs {
		if s == b {
			if n == nth {
				return i
			}
			n++
		}
	}
	return -1
}

// execBlock computes the in-state from predecessors and runs the block.
func (vc *VC) execBlock(b *ssa.BasicBlock, initial *State) {
	bi := vc.topo[b]
	vc.curBlk = bi
	var st *State
	if initial != nil {
		st = initial
		vc.reachB[b] = "true"
	} else {
		type inEdge struct {
			p    *ssa.BasicBlock
			cond string
			st   *State
		}
		var ins []inEdge
		seen := map[*ssa.BasicBlock]int{}
		for _, p := range b.Preds {
			if vc.isBackEdge(p, b) {
				continue
			}
			if _, ok := vc.topo[p]; !ok {
				continue // unreachable predecessor
			}
			nth := seen[p]
			seen[p]++
			si := succIndex(p, b, nth)
			c := and(vc.reachB[p], vc.edgeCond(p, si))
			e := vc.fresh(fmt.Sprintf("edge_%d_%d", p.Index, b.Index), "Bool")
			vc.curBlk = vc.topo[p] // the edge condition belongs to the predecessor
			vc.define(e, c)
			vc.curBlk = bi
			ins = append(ins, inEdge{p, e, vc.out[p]})
		}
		var conds []string
		for _, in := range ins {
			conds = append(conds, in.cond)
		}
		r := vc.fresh(fmt.Sprintf("reach_%d", b.Index), "Bool")
		vc.define(r, or(conds...))
		vc.reachB[b] = r
		// phi support: remember edges
		for i, in := range ins {
			vc.edge[[2]int{in.p.Index*1000 + i, b.Index}] = in.cond
		}
		if li := vc.loops[b]; li != nil {
			// inv-init on every entry edge
			for _, in := range ins {
				vc.curReach = in.cond
				vc.curBlk = vc.topo[in.p]
				vc.checkInvariant(li, in.st, "inv-init", nil)
			}
			vc.curBlk = bi
		}
		vc.curReach = r
		// merge
		if len(ins) == 1 {
			st = ins[0].st.clone()
		} else {
			st = vc.merge(b, ins[0].st, func(i int) (*State, string, bool) {
				if i >= len(ins) {
					return nil, "", false
				}
				return ins[i].st, ins[i].cond, true
			})
		}
		if li := vc.loops[b]; li != nil {
			vc.havocLoop(li, st)
		}
	}
	vc.curReach = vc.reachB[b]
	vc.curBlk = bi
	if li := vc.loops[b]; li != nil && initial == nil {
		// assume invariants at the head
		env := vc.loopEnv(li)
		for _, c := range li.clauses {
			if c.Kind == "invariant" || c.Kind == "free" {
				vc.assumeL(vc.evalBool(c.E, env, st, vc.entry), c.Label)
			}
		}
		li.headSt = st.clone()
		for _, c := range li.clauses {
			if c.Kind == "decreases" {
				li.decVals = append(li.decVals, vc.evalVal(c.E, env, st, vc.entry).S)
			}
		}
	}
	for _, ins := range b.Instrs {
		if len(vc.updatesAt[ins])+len(vc.assertsAt[ins]) > 0 {
			vc.preInstr = st.clone()
		}
		vc.execInstr(ins, st)
		vc.runUpdates(ins, st)
	}
	vc.out[b] = st
	// back edges out of this block
	for si, s := range b.Succs {
		if vc.isBackEdge(b, s) {
			li := vc.loops[s]
			save := vc.curReach
			vc.curReach = and(vc.reachB[b], vc.edgeCond(b, si))
			vc.checkInvariant(li, st, "inv-pres", nil)
			vc.checkDecreases(li, st)
			vc.curReach = save
		}
	}
}

func (vc *VC) merge(b *ssa.BasicBlock, first *State, get func(i int) (*State, string, bool)) *State {
	st := first.clone()
	var states []*State
	var conds []string
	for i := 0; ; i++ {
		s, c, ok := get(i)
		if !ok {
			break
		}
		states = append(states, s)
		conds = append(conds, c)
	}
	// cells: keep only cells present in all
	for a, v := range first.cells {
		same := true
		present := true
		for _, s := range states[1:] {
			w, ok := s.cells[a]
			if !ok {
				present = false
				break
			}
			if w.S != v.S || w.Fn != v.Fn || w.Heap != v.Heap {
				same = false
			}
		}
		if !present {
			delete(st.cells, a)
			continue
		}
		if same {
			continue
		}
		if v.K == KFunc || v.K == KStruct || v.K == KTuple || v.K == KIter {
			panic(unsupported("merge of composite cell %s", a.Comment))
		}
		nv := v
		nv.Glob = ""
		nv.S = vc.fresh("m_"+a.Comment, sortOfKind(v.K))
		for i, s := range states {
			vc.local(implies(conds[i], eq(nv.S, s.cells[a].S)))
		}
		st.cells[a] = nv
	}
	// heaps
	names := map[string]bool{}
	for _, s := range states {
		for k := range s.heaps {
			names[k] = true
		}
	}
	var ks []string
	for k := range names {
		ks = append(ks, k)
	}
	sort.Strings(ks)
	for _, k := range ks {
		v0 := vc.heap(states[0], k)
		same := true
		for _, s := range states[1:] {
			if vc.heap(s, k) != v0 {
				same = false
			}
		}
		if same {
			st.heaps[k] = v0
			continue
		}
		c := vc.fresh("m_"+strings.Trim(k, "|"), vc.compSort(k))
		for i, s := range states {
			vc.local(implies(conds[i], eq(c, vc.heap(s, k))))
		}
		st.heaps[k] = c
	}
	// pseudo cells
	for k, v0 := range first.pseudo {
		same := true
		for _, s := range states[1:] {
			if s.pseudo[k] != v0 {
				same = false
			}
		}
		if !same {
			c := vc.fresh("m_"+k, vc.pseudoSort(k))
			for i, s := range states {
				if t, ok := s.pseudo[k]; ok {
					vc.local(implies(conds[i], eq(c, t)))
				}
			}
			st.pseudo[k] = c
		}
	}
	// alloc
	sameA := true
	for _, s := range states[1:] {
		if s.alloc != first.alloc {
			sameA = false
		}
	}
	if !sameA {
		c := vc.fresh("m_alloc", "Int")
		for i, s := range states {
			vc.local(implies(conds[i], eq(c, s.alloc)))
		}
		st.alloc = c
	}
	return st
}

func (vc *VC) pseudoSort(name string) string {
	if s, ok := vc.compSorts["pseudo:"+name]; ok {
		return s
	}
	return "Int"
}

// ---------- loops ----------

// scanLoop computes the cells and components modified in the loop body.
func (vc *VC) scanLoop(li *loopInfo) {
	for b := range li.body {
		for _, ins := range b.Instrs {
			switch x := ins.(type) {
			case *ssa.Store:
				if a, ok := x.Addr.(*ssa.Alloc); ok && vc.isCell(a) {
					li.modCells[a] = true
				} else {
					for _, c := range vc.prog.storeComps(x.Addr, x.Val.Type()) {
						li.modComps[c] = true
					}
				}
			case *ssa.MapUpdate:
				mt := x.Map.Type()
				li.modComps[mapDomComp(mt)] = true
				li.modComps[mapValComp(mt)] = true
				li.modComps[mapLenComp(mt)] = true
			case *ssa.Alloc:
				if vc.isCell(x) {
					// re-initialised in every iteration; treated as modified
					li.modCells[x] = true
				} else {
					li.allocs = true
					for _, c := range vc.prog.zeroComps(x.Type().(*types.Pointer).Elem()) {
						li.modComps[c] = true
					}
				}
			case *ssa.MakeSlice, *ssa.MakeMap, *ssa.MakeClosure, *ssa.MakeInterface:
				li.allocs = true
			case ssa.CallInstruction:
				eff := vc.prog.callEffects(x, vc)
				if f := vc.prog.resolveFuncValue(x.Common().Value); f != nil && !x.Common().IsInvoke() {
					if cfc := vc.prog.contracts.Funcs[vc.prog.funcKey(f)]; cfc != nil && !cfc.Extern && cfc.Modifies != nil && modifiesNothing(cfc) && scalarResults(f.Signature) {
						eff = &effects{comps: map[string]string{}, allocs: eff.allocs}
					}
				}
				for c := range eff.comps {
					li.modComps[c] = true
				}
				if eff.allocs {
					li.allocs = true
				}
			case *ssa.Next:
				// an iterator created inside the loop body has no cell at the head
				if it, ok := vc.regs[x.Iter]; ok && it.Iter != nil {
					li.modPseudo[it.Iter.visited] = true
				}
			}
			for _, u := range vc.updatesAt[ins] {
				for _, a := range u.Assigns {
					lhs := a.LHS
					for {
						if ix, ok := lhs.(*EIndex); ok {
							lhs = ix.X
							continue
						}
						break
					}
					if id, ok := lhs.(*EIdent); ok {
						li.modPseudo[id.Name] = true
					}
				}
			}
			if v, ok := ins.(ssa.Value); ok {
				if _, isConv := ins.(*ssa.Convert); isConv {
					if kindOf(v.Type()) == KStr || kindOf(v.Type()) == KSlice {
						li.allocs = true
					}
				}
			}
		}
	}
}

func (vc *VC) havocLoop(li *loopInfo, st *State) {
	vc.scanLoop(li)
	pre := st.clone()
	if li.allocs {
		na := vc.fresh("h_alloc", "Int")
		vc.local(sx("<=", st.alloc, na))
		st.alloc = na
	}
	for a := range li.modCells {
		if a == nil {
			continue
		}
		if v, ok := st.cells[a]; ok {
			if v.K == KFunc || v.K == KIter {
				continue
			}
			nv := Val{K: v.K, T: v.T}
			nv.S = vc.fresh("h_"+a.Comment, sortOfKind(v.K))
			st.cells[a] = nv
			vc.local(implies(vc.reachB[li.header], vc.typeAssume(nv, st.alloc)))
		}
	}
	var comps []string
	for c := range li.modComps {
		comps = append(comps, c)
	}
	sort.Strings(comps)
	for _, c := range comps {
		if _, ok := vc.compSorts[c]; !ok {
			continue // component never materialised in this function
		}
		old := vc.heap(st, c)
		nc := vc.fresh("h_"+strings.Trim(c, "|"), vc.compSort(c))
		st.heaps[c] = nc
		if cl := closureFact(nc, vc.compSort(c), st.alloc); cl != "" {
			vc.local(cl)
		}
		// free loop frame: locations outside the function's frame that
		// existed at loop entry are unchanged (justified by the per-store
		// frame obligations).
		vc.loopFrame(li, c, old, nc, pre)
	}
	for k := range st.pseudo {
		if li.modAllPseudo || li.modPseudo[k] {
			st.pseudo[k] = vc.fresh("h_"+k, vc.pseudoSort(k))
		}
	}
	// recursive spec predicates over pre-existing objects keep their value
	// when only fresh memory (outside the function's frame) was written
	changed := map[string]bool{}
	for _, c := range comps {
		if _, ok := vc.compSorts[c]; !ok {
			continue
		}
		if foot, whole := vc.footprint(c, "a!"); !whole && foot == "false" {
			changed[c] = true
		}
	}
	vc.specFrame(func(c string) string { return vc.entryHeap(c) }, st, changed, "|alloc@0|")
}

// loopFrame emits the free frame invariant for one havoced component.
func (vc *VC) loopFrame(li *loopInfo, comp, before, after string, pre *State) {
	if !strings.HasPrefix(vc.compSort(comp), "(Array Addr") {
		return
	}
	foot, whole := vc.footprint(comp, "a!")
	if whole {
		return
	}
	body := implies(and(sx("<", sx("rootOf", "a!"), "|alloc@0|"), not(foot)), eq(sx("select", after, "a!"), sx("select", vc.entryHeap(comp), "a!")))
	vc.local(fmt.Sprintf("(forall ((a! Addr)) (! %s :pattern ((select %s a!))))", body, after))
	// additionally: anything allocated before the loop and not written is
	// not expressible without a write set; left to explicit invariants.
	_ = before
}

// footprint returns a formula over address variable av describing the
// addresses of component comp the function may modify, and whether the whole
// component is modifiable.
func (vc *VC) footprint(comp, av string) (string, bool) {
	if vc.fc == nil || vc.fc.Modifies == nil {
		return "true", true
	}
	var parts []string
	env := vc.contractEnv(nil)
	for _, mc := range vc.fc.Modifies {
		for _, mi := range mc.Mods {
			if mi.MapOf != nil {
				mv := vc.evalVal(mi.MapOf, env, vc.entry, vc.entry)
				if isMapComp(comp, mv.T) {
					parts = append(parts, eq(av, mv.S))
				}
				continue
			}
			if mi.Elems != nil {
				sv := vc.evalVal(mi.Elems, env, vc.entry, vc.entry)
				if sv.K != KSlice {
					panic(unsupported("elems() of non-slice"))
				}
				et := elemTypeOf(sv.T)
				if isScalarType(et) && elemComp(et) == comp {
					parts = append(parts, and(sx("(_ is elem)", av), eq(sx("epar", av), sx("sarr", sv.S)), sx("<=", sx("soff", sv.S), sx("eidx", av)), sx("<", sx("eidx", av), sx("+", sx("soff", sv.S), sx("slen", sv.S)))))
				}
				continue
			}
			for _, pat := range mi.Comps {
				if !vc.prog.compMatches(pat, comp, vc.fn.Pkg.Pkg) {
					continue
				}
				if mi.In != nil {
					sv := vc.evalVal(mi.In, env, vc.entry, vc.entry)
					if sv.K != KSlice {
						panic(unsupported("'in' needs a slice"))
					}
					parts = append(parts, and(sx("(_ is elem)", av), eq(sx("epar", av), sx("sarr", sv.S)), sx("<=", sx("soff", sv.S), sx("eidx", av)), sx("<", sx("eidx", av), sx("+", sx("soff", sv.S), sx("slen", sv.S)))))
					continue
				}
				if mi.After != nil {
					ob := vc.evalVal(mi.After, env, vc.entry, vc.entry)
					parts = append(parts, sx("<", sx("rootOf", vc.addrOf(ob)), sx("rootOf", av)))
					continue
				}
				if mi.At == nil {
					return "true", true
				}
				at := vc.evalVal(mi.At, env, vc.entry, vc.entry)
				parts = append(parts, eq(av, at.S))
			}
		}
	}
	return or(parts...), false
}

// assumeOwnLemmas makes the lemmas listed in the function's "option uses="
// available (instantiated over the heap of the given state).
func (vc *VC) assumeOwnLemmas(st *State) {
	if vc.fc == nil || vc.fc.Opts["lemmas"] == "" {
		return
	}
	for _, ln := range strings.Split(vc.fc.Opts["lemmas"], ",") {
		vc.assume(vc.lemmaFact(strings.TrimSpace(ln), st))
	}
}

func (vc *VC) checkInvariant(li *loopInfo, st *State, class string, _ *Clause) {
	env := vc.loopEnv(li)
	vc.assumeOwnLemmas(st)
	for i, c := range li.clauses {
		if c.Kind != "invariant" {
			continue
		}
		name := c.Label
		if name == "" {
			name = fmt.Sprintf("%d", i)
		}
		goal := vc.evalBool(c.E, env, st, vc.entry)
		vc.obligeState = st
		vc.oblige(class, fmt.Sprintf("%s@loop%d", name, li.ordinal), c.Props, goal, c)
		vc.obligeState = nil
	}
}

func (vc *VC) checkDecreases(li *loopInfo, st *State) {
	if len(li.decVals) == 0 {
		return
	}
	env := vc.loopEnv(li)
	var now []string
	for _, c := range li.clauses {
		if c.Kind == "decreases" {
			now = append(now, vc.evalVal(c.E, env, st, vc.entry).S)
		}
	}
	// lexicographic decrease, each component bounded below by 0
	var goal string = "false"
	for i := len(now) - 1; i >= 0; i-- {
		goal = or(and(sx("<", now[i], li.decVals[i]), sx("<=", "0", li.decVals[i])), and(eq(now[i], li.decVals[i]), goal))
	}
	vc.oblige("dec", fmt.Sprintf("loop%d", li.ordinal), []string{"C03"}, goal, nil)
}

// isCell reports whether an Alloc is a register-like local: scalar type,
// used only as the address of loads and stores.
func (vc *VC) isCell(a *ssa.Alloc) bool { return vc.prog.isCell(a) }

// ---------- instructions ----------

func (vc *VC) val(v ssa.Value) Val {
	if r, ok := vc.regs[v]; ok {
		return r
	}
	switch x := v.(type) {
	case *ssa.Const:
		return vc.constVal(x)
	case *ssa.Global:
		return Val{K: KPtr, T: x.Type(), Glob: x.Pkg.Pkg.Name() + "." + x.Name()}
	case *ssa.Function:
		return Val{K: KFunc, T: x.Type(), Fn: x, S: "1"}
	case *ssa.Builtin:
		return Val{K: KFunc, T: x.Type(), S: "1"}
	}
	panic(unsupported("value %s (%T) used before definition", v.Name(), v))
}

func (vc *VC) constVal(c *ssa.Const) Val {
	t := c.Type()
	k := kindOf(t)
	if c.Value == nil {
		return vc.zero(t)
	}
	switch k {
	case KBool:
		if constant.BoolVal(c.Value) {
			return Val{K: KBool, T: t, S: "true"}
		}
		return Val{K: KBool, T: t, S: "false"}
	case KInt:
		iv := constant.ToInt(c.Value)
		s := iv.ExactString()
		if strings.HasPrefix(s, "-") {
			s = "(- " + s[1:] + ")"
		}
		return Val{K: KInt, T: t, S: s}
	case KStr:
		return Val{K: KStr, T: t, S: vc.strLit(constant.StringVal(c.Value))}
	}
	return Val{K: k, T: t, S: vc.fresh("const", sortOfKind(k))}
}

func (vc *VC) strLit(s string) string {
	if s == "" {
		return "s_empty"
	}
	if c, ok := vc.strLits[s]; ok {
		return c
	}
	c := fmt.Sprintf("|str!%d|", len(vc.strLits))
	vc.declare(c, "Str")
	vc.strLits[s] = c
	vc.global(eq(sx("s_len", c), num(int64(len(s)))))
	for i := 0; i < len(s); i++ {
		vc.global(eq(sx("s_at", c, num(int64(i))), num(int64(s[i]))))
	}
	// distinct from earlier literals
	for o, oc := range vc.strLits {
		if o != s {
			vc.global(not(eq(c, oc)))
		}
	}
	return c
}

func (vc *VC) site(ins ssa.Instruction) string {
	return ""
}

// rootAlloc follows FieldAddr/IndexAddr chains down to a heap Alloc.
func rootAlloc(v ssa.Value) *ssa.Alloc {
	for {
		switch x := v.(type) {
		case *ssa.Alloc:
			return x
		case *ssa.FieldAddr:
			v = x.X
		case *ssa.IndexAddr:
			v = x.X
		default:
			return nil
		}
	}
}

// markEscapes records when the address of a freshly allocated object is used
// other than to load from or store into it.
func (vc *VC) markEscapes(ins ssa.Instruction) {
	if vc.escaped == nil {
		return
	}
	var ops []*ssa.Value
	ops = ins.Operands(ops)
	for _, op := range ops {
		if op == nil || *op == nil {
			continue
		}
		a := rootAlloc(*op)
		if a == nil {
			continue
		}
		addrUse := false
		switch x := ins.(type) {
		case *ssa.Store:
			addrUse = x.Addr == *op && x.Val != *op
		case *ssa.UnOp:
			addrUse = true
		case *ssa.FieldAddr, *ssa.IndexAddr:
			addrUse = true
		case *ssa.DebugRef:
			addrUse = true
		}
		if !addrUse {
			vc.escaped[a] = true
		}
	}
}

func (vc *VC) execInstr(ins ssa.Instruction, st *State) {
	vc.curIns = ins
	vc.markEscapes(ins)
	switch x := ins.(type) {
	case *ssa.DebugRef, *ssa.RunDefers, *ssa.Jump, *ssa.If:
		return
	case *ssa.Alloc:
		vc.execAlloc(x, st)
	case *ssa.Store:
		vc.execStore(x, st)
	case *ssa.UnOp:
		vc.execUnOp(x, st)
	case *ssa.BinOp:
		vc.regs[x] = vc.binop(x.Op, vc.val(x.X), vc.val(x.Y), x.Type(), st, true)
	case *ssa.FieldAddr:
		vc.execFieldAddr(x, st)
	case *ssa.Field:
		sv := vc.val(x.X)
		vc.regs[x] = sv.Fs[x.Field]
	case *ssa.IndexAddr:
		vc.execIndexAddr(x, st)
	case *ssa.Index:
		vc.execIndex(x, st)
	case *ssa.Slice:
		vc.execSlice(x, st)
	case *ssa.Extract:
		vc.regs[x] = vc.val(x.Tuple).Fs[x.Index]
	case *ssa.Phi:
		vc.execPhi(x, st)
	case *ssa.Call:
		vc.execCall(x, st)
	case *ssa.Return:
		vc.execReturn(x, st)
	case *ssa.Panic:
		vc.oblige("safe", "panic", []string{"C03"}, "false", nil)
	case *ssa.Convert:
		vc.execConvert(x, st)
	case *ssa.ChangeType:
		v := vc.val(x.X)
		v.T = x.Type()
		vc.regs[x] = v
	case *ssa.ChangeInterface:
		v := vc.val(x.X)
		v.T = x.Type()
		vc.regs[x] = v
	case *ssa.MakeInterface:
		vc.execMakeInterface(x, st)
	case *ssa.MakeSlice:
		vc.execMakeSlice(x, st)
	case *ssa.MakeMap:
		vc.execMakeMap(x, st)
	case *ssa.MakeClosure:
		vc.execMakeClosure(x, st)
	case *ssa.Lookup:
		vc.execLookup(x, st)
	case *ssa.MapUpdate:
		vc.execMapUpdate(x, st)
	case *ssa.Range:
		vc.execRange(x, st)
	case *ssa.Next:
		vc.execNext(x, st)
	case *ssa.TypeAssert:
		vc.execTypeAssert(x, st)
	case *ssa.Defer:
		panic(unsupported("defer"))
	case *ssa.Go:
		panic(unsupported("go statement"))
	default:
		panic(unsupported("instruction %T", ins))
	}
}

func (vc *VC) newRoot(st *State) string {
	a := sx("root", st.alloc)
	na := vc.fresh("alloc", "Int")
	vc.define(na, sx("+", st.alloc, "1"))
	st.alloc = na
	return a
}

func (vc *VC) execAlloc(x *ssa.Alloc, st *State) {
	et := x.Type().(*types.Pointer).Elem()
	if vc.isCell(x) {
		st.cells[x] = vc.zero(et)
		vc.regs[x] = Val{K: KPtr, T: x.Type(), Cell: x}
		return
	}
	if vc.allocBound == nil {
		vc.allocBound = map[*ssa.Alloc]string{}
		vc.escaped = map[*ssa.Alloc]bool{}
	}
	vc.allocBound[x] = st.alloc
	vc.escaped[x] = false
	before := vc.snapshotHeaps(st)
	defer func() { vc.storeSpecFrames(before, st, x, "") }()
	addr := vc.fresh("new_"+x.Comment, "Addr")
	vc.define(addr, vc.newRoot(st))
	v := Val{K: KPtr, T: x.Type(), S: addr}
	if isScalarType(et) {
		v.Heap = vc.regComp(elemComp(et), sortOfType(et))
		vc.storeAt(st, et, addr, v.Heap, vc.zero(et))
	} else {
		vc.zeroInit(st, et, addr)
	}
	vc.regs[x] = v
}

// zeroInit writes the zero value of composite type t at address a.
func (vc *VC) zeroInit(st *State, t types.Type, a string) {
	switch u := t.Underlying().(type) {
	case *types.Struct:
		for i := 0; i < u.NumFields(); i++ {
			ft := u.Field(i).Type()
			if isScalarType(ft) {
				comp := vc.regComp(fieldComp(t, i), sortOfType(ft))
				vc.setHeap(st, comp, sx("store", vc.heap(st, comp), a, vc.zero(ft).S))
			} else {
				vc.zeroInit(st, ft, sx("fld", a, num(int64(i))))
			}
		}
	case *types.Array:
		et := u.Elem()
		if isScalarType(et) {
			comp := vc.regComp(elemComp(et), sortOfType(et))
			old := vc.heap(st, comp)
			nc := vc.fresh(strings.Trim(comp, "|"), vc.compSort(comp))
			st.heaps[comp] = nc
			vc.touched[comp] = true
			vc.local(fmt.Sprintf("(forall ((k! Int)) (! (= (select %s (elem %s k!)) %s) :pattern ((select %s (elem %s k!)))))", nc, a, vc.zero(et).S, nc, a))
			vc.local(fmt.Sprintf("(forall ((a! Addr)) (! (=> (not (and ((_ is elem) a!) (= (epar a!) %s))) (= (select %s a!) (select %s a!))) :pattern ((select %s a!))))", a, nc, old, nc))
		} else {
			vc.zeroArray(st, et, a)
		}
	default:
		panic(unsupported("zeroInit %s", t))
	}
}

func (vc *VC) nilCheck(p Val, what string) {
	if p.Cell != nil || p.Glob != "" {
		return
	}
	if strings.HasPrefix(p.S, "(fld ") || strings.HasPrefix(p.S, "(elem ") || strings.HasPrefix(p.S, "(root ") || strings.HasPrefix(p.S, "(idx ") || strings.HasPrefix(p.S, "|new_") {
		return
	}
	// a pointer term already checked in a dominating position needs no
	// second obligation
	cur := vc.order[vc.curBlk]
	for _, b := range vc.nilChecked[p.S] {
		if b == cur || b.Dominates(cur) {
			return
		}
	}
	if vc.nilChecked == nil {
		vc.nilChecked = map[string][]*ssa.BasicBlock{}
	}
	vc.nilChecked[p.S] = append(vc.nilChecked[p.S], cur)
	vc.oblige("safe", "nil@"+what, []string{"C03"}, not(eq(p.S, "nil")), nil)
}

func (vc *VC) execStore(x *ssa.Store, st *State) {
	addr := vc.val(x.Addr)
	v := vc.val(x.Val)
	if addr.Cell != nil {
		if v.K == KStruct || v.K == KTuple {
			panic(unsupported("struct in cell"))
		}
		st.cells[addr.Cell] = v
		return
	}
	if addr.Glob != "" {
		if vc.fn.Name() == "init" {
			return
		}
		panic(unsupported("store to package-level variable %s", addr.Glob))
	}
	t := x.Val.Type()
	vc.nilCheck(addr, "store")
	before := vc.snapshotHeaps(st)
	defer func() { vc.storeSpecFrames(before, st, rootAlloc(x.Addr), addr.S) }()
	if isScalarType(t) {
		if addr.Heap == "" {
			// pointer to scalar of unknown provenance: generic cell heap
			addr.Heap = vc.regComp(elemComp(t), sortOfType(t))
		}
		vc.frameCheck(addr.Heap, addr.S, st)
		vc.storeAt(st, t, addr.S, addr.Heap, v)
		return
	}
	for _, c := range vc.prog.storeComps(x.Addr, t) {
		// frame obligations per leaf component are merged into one
		_ = c
	}
	vc.frameCheckStruct(t, addr.S, st)
	vc.storeAt(st, t, addr.S, "", v)
}

func (vc *VC) frameCheck(comp, addr string, st *State) {
	if vc.fc == nil || vc.fc.Modifies == nil {
		return
	}
	vc.regCompFull(comp, vc.compSorts[comp])
	foot, whole := vc.footprint(comp, addr)
	if whole {
		return
	}
	goal := or(sx(">=", sx("rootOf", addr), "|alloc@0|"), foot)
	vc.oblige("frame", "store@"+strings.Trim(strings.TrimPrefix(strings.TrimPrefix(comp, "|H:"), "|E:"), "|"), []string{"C14"}, goal, nil)
}

func (vc *VC) frameCheckStruct(t types.Type, addr string, st *State) {
	if vc.fc == nil || vc.fc.Modifies == nil {
		return
	}
	// a struct store is in frame if its address is fresh, or every leaf
	// component is modifiable there.
	var goals []string
	var walk func(t types.Type, a string)
	walk = func(t types.Type, a string) {
		stt, ok := t.Underlying().(*types.Struct)
		if !ok {
			return
		}
		for i := 0; i < stt.NumFields(); i++ {
			ft := stt.Field(i).Type()
			if isScalarType(ft) {
				comp := vc.regComp(fieldComp(t, i), sortOfType(ft))
				foot, whole := vc.footprint(comp, a)
				if !whole {
					goals = append(goals, foot)
				}
			} else {
				walk(ft, sx("fld", a, num(int64(i))))
			}
		}
	}
	walk(t, addr)
	if len(goals) == 0 {
		return
	}
	goal := or(sx(">=", sx("rootOf", addr), "|alloc@0|"), and(goals...))
	vc.oblige("frame", "store@"+typeName(t), []string{"C14"}, goal, nil)
}

func (vc *VC) execUnOp(x *ssa.UnOp, st *State) {
	v := vc.val(x.X)
	switch x.Op {
	case token.MUL: // load
		if v.Cell != nil {
			cv, ok := st.cells[v.Cell]
			if !ok {
				panic(unsupported("load of uninitialised cell %s", v.Cell.Comment))
			}
			vc.regs[x] = cv
			return
		}
		if v.Glob != "" {
			vc.regs[x] = vc.loadGlobal(v.Glob, x.Type(), x.X.(*ssa.Global), st)
			return
		}
		vc.nilCheck(v, "load")
		t := x.Type()
		if isScalarType(t) {
			heap := v.Heap
			if heap == "" {
				heap = vc.regComp(elemComp(t), sortOfType(t))
			}
			r := vc.loadAt(st, t, v.S, heap)
			c := vc.fresh(x.Name(), sortOfKind(r.K))
			vc.define(c, r.S)
			r.S = c
			vc.assume(vc.typeAssume(r, st.alloc))
			vc.regs[x] = r
			return
		}
		r := vc.loadAt(st, t, v.S, "")
		vc.assume(vc.typeAssume(r, st.alloc))
		vc.regs[x] = r
	case token.NOT:
		vc.regs[x] = Val{K: KBool, T: x.Type(), S: not(v.S)}
	case token.SUB:
		r := Val{K: KInt, T: x.Type(), S: sx("-", v.S)}
		vc.regs[x] = vc.wrap(r)
	case token.XOR:
		if isUnsigned(x.Type()) {
			_, hi, _ := intRange(x.Type())
			vc.regs[x] = Val{K: KInt, T: x.Type(), S: sx("-", hi, v.S)}
		} else {
			vc.regs[x] = Val{K: KInt, T: x.Type(), S: sx("-", sx("-", v.S), "1")}
		}
	case token.ARROW:
		panic(unsupported("channel receive"))
	default:
		panic(unsupported("unop %s", x.Op))
	}
}

// wrap applies modular wrap-around for unsigned types.
func (vc *VC) wrap(v Val) Val {
	if isUnsigned(v.T) {
		v.S = sx("mod", v.S, pow2(intBits(v.T)))
	}
	return v
}

func (vc *VC) binop(op token.Token, a, b Val, rt types.Type, st *State, check bool) Val {
	switch op {
	case token.ADD:
		if a.K == KStr {
			return Val{K: KStr, T: rt, S: sx("s_cat", a.S, b.S)}
		}
		return vc.arith(Val{K: KInt, T: rt, S: sx("+", a.S, b.S)}, check)
	case token.SUB:
		return vc.arith(Val{K: KInt, T: rt, S: sx("-", a.S, b.S)}, check)
	case token.MUL:
		return vc.arith(Val{K: KInt, T: rt, S: sx("*", a.S, b.S)}, check)
	case token.QUO:
		if a.K != KInt {
			return Val{K: KOpaque, T: rt, S: vc.fresh("fdiv", "Int")}
		}
		if check {
			vc.oblige("safe", "div", []string{"C03"}, not(eq(b.S, "0")), nil)
		}
		// Go truncates toward zero
		q := fmt.Sprintf("(ite (>= %s 0) (div %s %s) (- (div (- %s) %s)))", a.S, a.S, b.S, a.S, b.S)
		if isUnsigned(rt) {
			q = sx("div", a.S, b.S)
		}
		return Val{K: KInt, T: rt, S: q}
	case token.REM:
		if check {
			vc.oblige("safe", "div", []string{"C03"}, not(eq(b.S, "0")), nil)
		}
		r := fmt.Sprintf("(ite (>= %s 0) (mod %s %s) (- (mod (- %s) %s)))", a.S, a.S, b.S, a.S, b.S)
		if isUnsigned(rt) {
			r = sx("mod", a.S, b.S)
		}
		return Val{K: KInt, T: rt, S: r}
	case token.EQL, token.NEQ:
		var e string
		switch a.K {
		case KSlice:
			// only comparison with nil is legal
			if strings.HasPrefix(b.S, "(mk-slice nil") {
				e = eq(sx("sarr", a.S), "nil")
			} else {
				e = eq(sx("sarr", b.S), "nil")
			}
		case KStruct:
			var parts []string
			for i := range a.Fs {
				if a.Fs[i].K == KStruct || a.Fs[i].K == KOpaque && a.Fs[i].S == "0" {
					panic(unsupported("comparison of nested structs"))
				}
				parts = append(parts, eq(a.Fs[i].S, b.Fs[i].S))
			}
			e = and(parts...)
		case KFunc:
			e = eq(a.S, b.S)
		default:
			if a.Heap != "" || b.Heap != "" || a.Cell != nil || b.Cell != nil {
				panic(unsupported("comparison of scalar-location pointers"))
			}
			e = eq(a.S, b.S)
		}
		if op == token.NEQ {
			e = not(e)
		}
		return Val{K: KBool, T: rt, S: e}
	case token.LSS, token.LEQ, token.GTR, token.GEQ:
		if a.K == KStr {
			var e string
			switch op {
			case token.LSS:
				e = sx("s_lt", a.S, b.S)
			case token.GTR:
				e = sx("s_lt", b.S, a.S)
			case token.LEQ:
				e = not(sx("s_lt", b.S, a.S))
			default:
				e = not(sx("s_lt", a.S, b.S))
			}
			return Val{K: KBool, T: rt, S: e}
		}
		if a.K != KInt {
			return Val{K: KBool, T: rt, S: vc.fresh("fcmp", "Bool")}
		}
		m := map[token.Token]string{token.LSS: "<", token.LEQ: "<=", token.GTR: ">", token.GEQ: ">="}
		return Val{K: KBool, T: rt, S: sx(m[op], a.S, b.S)}
	case token.LAND:
		return Val{K: KBool, T: rt, S: and(a.S, b.S)}
	case token.LOR:
		return Val{K: KBool, T: rt, S: or(a.S, b.S)}
	case token.SHL, token.SHR, token.AND, token.OR, token.XOR, token.AND_NOT:
		return vc.bitop(op, a, b, rt, check)
	}
	panic(unsupported("binop %s", op))
}

func (vc *VC) arith(v Val, check bool) Val {
	if isUnsigned(v.T) {
		return vc.wrap(v)
	}
	if lo, hi, ok := intRange(v.T); ok && check && vc.overflowChecks() {
		vc.oblige("safe", "overflow", []string{"C03"}, and(sx("<=", lo, v.S), sx("<=", v.S, hi)), nil)
	}
	return v
}

func (vc *VC) overflowChecks() bool {
	return vc.fc != nil && vc.fc.Opts["overflow"] == "on"
}

func (vc *VC) bitop(op token.Token, a, b Val, rt types.Type, check bool) Val {
	// constant shift amounts and masks are handled arithmetically
	switch op {
	case token.SHL, token.SHR:
		if n, ok := smallConst(b.S); ok && n >= 0 && n < 64 {
			p := "1"
			for i := int64(0); i < n; i++ {
				p = mulStr(p)
			}
			if op == token.SHL {
				return vc.arith(Val{K: KInt, T: rt, S: sx("*", a.S, p)}, check)
			}
			if isUnsigned(rt) {
				return Val{K: KInt, T: rt, S: sx("div", a.S, p)}
			}
			return Val{K: KInt, T: rt, S: sx("div", a.S, p)} // floor division == arithmetic shift
		}
	}
	r := Val{K: KInt, T: rt, S: vc.fresh("bitop", "Int")}
	vc.local(vc.typeAssume(r, "0"))
	return r
}

func mulStr(p string) string {
	// doubles a decimal string
	carry := 0
	out := make([]byte, 0, len(p)+1)
	for i := len(p) - 1; i >= 0; i-- {
		d := int(p[i]-'0')*2 + carry
		out = append(out, byte('0'+d%10))
		carry = d / 10
	}
	if carry > 0 {
		out = append(out, byte('0'+carry))
	}
	for i, j := 0, len(out)-1; i < j; i, j = i+1, j-1 {
		out[i], out[j] = out[j], out[i]
	}
	return string(out)
}

func smallConst(s string) (int64, bool) {
	var n int64
	if len(s) == 0 || len(s) > 10 {
		return 0, false
	}
	for _, c := range s {
		if c < '0' || c > '9' {
			return 0, false
		}
		n = n*10 + int64(c-'0')
	}
	return n, true
}

func (vc *VC) execFieldAddr(x *ssa.FieldAddr, st *State) {
	p := vc.val(x.X)
	if p.Heap != "" || p.Cell != nil {
		panic(unsupported("field address of scalar pointer"))
	}
	vc.nilCheck(p, "field."+fieldName(x.X.Type(), x.Field))
	stt := x.X.Type().Underlying().(*types.Pointer).Elem()
	ft := stt.Underlying().(*types.Struct).Field(x.Field).Type()
	if isScalarType(ft) {
		comp := vc.regComp(fieldComp(stt, x.Field), sortOfType(ft))
		vc.regs[x] = Val{K: KPtr, T: x.Type(), S: p.S, Heap: comp}
		return
	}
	vc.regs[x] = Val{K: KPtr, T: x.Type(), S: sx("fld", p.S, num(int64(x.Field)))}
}

func fieldName(ptrT types.Type, i int) string {
	return ptrT.Underlying().(*types.Pointer).Elem().Underlying().(*types.Struct).Field(i).Name()
}

func (vc *VC) execIndexAddr(x *ssa.IndexAddr, st *State) {
	base := vc.val(x.X)
	idx := vc.val(x.Index)
	var elemT types.Type
	var addr string
	switch u := x.X.Type().Underlying().(type) {
	case *types.Slice:
		elemT = u.Elem()
		vc.oblige("safe", "index", []string{"C03"}, and(sx("<=", "0", idx.S), sx("<", idx.S, sx("slen", base.S))), nil)
		addr = sliceElemAddr(base.S, idx.S)
	case *types.Pointer:
		arr := u.Elem().Underlying().(*types.Array)
		elemT = arr.Elem()
		vc.nilCheck(base, "index")
		vc.oblige("safe", "index", []string{"C03"}, and(sx("<=", "0", idx.S), sx("<", idx.S, num(arr.Len()))), nil)
		addr = sx("elem", base.S, idx.S)
	default:
		panic(unsupported("IndexAddr on %s", x.X.Type()))
	}
	if isScalarType(elemT) {
		vc.regs[x] = Val{K: KPtr, T: x.Type(), S: addr, Heap: vc.regComp(elemComp(elemT), sortOfType(elemT))}
	} else {
		vc.regs[x] = Val{K: KPtr, T: x.Type(), S: addr}
	}
}

func (vc *VC) execIndex(x *ssa.Index, st *State) {
	base := vc.val(x.X)
	idx := vc.val(x.Index)
	if base.K == KStr {
		vc.oblige("safe", "index", []string{"C03"}, and(sx("<=", "0", idx.S), sx("<", idx.S, sx("s_len", base.S))), nil)
		r := Val{K: KInt, T: x.Type(), S: sx("s_at", base.S, idx.S)}
		vc.assume(vc.typeAssume(r, st.alloc))
		vc.regs[x] = r
		return
	}
	panic(unsupported("Index on %s", x.X.Type()))
}

func (vc *VC) execSlice(x *ssa.Slice, st *State) {
	base := vc.val(x.X)
	var lo, hi, max string
	if x.Low != nil {
		lo = vc.val(x.Low).S
	} else {
		lo = "0"
	}
	switch u := x.X.Type().Underlying().(type) {
	case *types.Basic: // string
		if x.High != nil {
			hi = vc.val(x.High).S
		} else {
			hi = sx("s_len", base.S)
		}
		vc.oblige("safe", "slice", []string{"C03"}, and(sx("<=", "0", lo), sx("<=", lo, hi), sx("<=", hi, sx("s_len", base.S))), nil)
		c := vc.fresh(x.Name(), "Str")
		vc.define(c, sx("s_sub", base.S, lo, hi))
		vc.regs[x] = Val{K: KStr, T: x.Type(), S: c}
	case *types.Slice:
		if x.High != nil {
			hi = vc.val(x.High).S
		} else {
			hi = sx("slen", base.S)
		}
		capv := sx("scap", base.S)
		if x.Max != nil {
			max = vc.val(x.Max).S
			vc.oblige("safe", "slice", []string{"C03"}, and(sx("<=", "0", lo), sx("<=", lo, hi), sx("<=", hi, max), sx("<=", max, capv)), nil)
		} else {
			max = capv
			vc.oblige("safe", "slice", []string{"C03"}, and(sx("<=", "0", lo), sx("<=", lo, hi), sx("<=", hi, capv)), nil)
		}
		c := vc.fresh(x.Name(), "Slice")
		vc.define(c, sx("mk-slice", sx("sarr", base.S), sx("+", sx("soff", base.S), lo), sx("-", hi, lo), sx("-", max, lo)))
		vc.regs[x] = Val{K: KSlice, T: x.Type(), S: c}
	case *types.Pointer: // pointer to array
		arr := u.Elem().Underlying().(*types.Array)
		n := num(arr.Len())
		if x.High != nil {
			hi = vc.val(x.High).S
		} else {
			hi = n
		}
		vc.nilCheck(base, "slice")
		vc.oblige("safe", "slice", []string{"C03"}, and(sx("<=", "0", lo), sx("<=", lo, hi), sx("<=", hi, n)), nil)
		c := vc.fresh(x.Name(), "Slice")
		vc.define(c, sx("mk-slice", base.S, lo, sx("-", hi, lo), sx("-", n, lo)))
		vc.regs[x] = Val{K: KSlice, T: x.Type(), S: c}
	default:
		panic(unsupported("Slice on %s", x.X.Type()))
	}
}

func (vc *VC) execPhi(x *ssa.Phi, st *State) {
	b := x.Block()
	if vc.loops[b] != nil {
		panic(unsupported("phi at loop header"))
	}
	k := kindOf(x.Type())
	if !isScalarType(x.Type()) {
		panic(unsupported("phi of composite"))
	}
	c := vc.fresh(x.Name(), sortOfKind(k))
	i := 0
	for pi, p := range b.Preds {
		if _, ok := vc.topo[p]; !ok {
			continue
		}
		e := vc.edge[[2]int{p.Index*1000 + i, b.Index}]
		i++
		vc.local(implies(e, eq(c, vc.val(x.Edges[pi]).S)))
	}
	vc.regs[x] = Val{K: k, T: x.Type(), S: c}
}

func (vc *VC) execConvert(x *ssa.Convert, st *State) {
	v := vc.val(x.X)
	from, to := x.X.Type(), x.Type()
	fk, tk := kindOf(from), kindOf(to)
	switch {
	case fk == KInt && tk == KInt:
		vc.regs[x] = vc.convInt(v, to)
	case fk == KSlice && tk == KStr:
		// string(b): fresh string with the bytes of b
		s := vc.fresh(x.Name(), "Str")
		vc.local(implies(vc.curReach, eq(sx("s_len", s), sx("slen", v.S))))
		et := elemTypeOf(from)
		heap := vc.heap(st, vc.regComp(elemComp(et), "Int"))
		vc.local(implies(vc.curReach, fmt.Sprintf("(forall ((k! Int)) (! (=> (and (<= 0 k!) (< k! (slen %s))) (= (s_at %s k!) (select %s (idx %s k!)))) :pattern ((s_at %s k!))))", v.S, s, heap, v.S, s)))
		vc.regs[x] = Val{K: KStr, T: to, S: s}
	case fk == KStr && tk == KSlice:
		et := elemTypeOf(to)
		if intBits(et) != 8 {
			panic(unsupported("string to []rune"))
		}
		arr := vc.fresh("arr_"+x.Name(), "Addr")
		vc.define(arr, vc.newRoot(st))
		comp := vc.regComp(elemComp(et), "Int")
		old := vc.heap(st, comp)
		nc := vc.fresh(strings.Trim(comp, "|"), vc.compSort(comp))
		st.heaps[comp] = nc
		vc.touched[comp] = true
		vc.local(fmt.Sprintf("(forall ((k! Int)) (! (=> (and (<= 0 k!) (< k! (s_len %s))) (= (select %s (elem %s k!)) (s_at %s k!))) :pattern ((select %s (elem %s k!)))))", v.S, nc, arr, v.S, nc, arr))
		vc.local(fmt.Sprintf("(forall ((a! Addr)) (! (=> (not (and ((_ is elem) a!) (= (epar a!) %s))) (= (select %s a!) (select %s a!))) :pattern ((select %s a!))))", arr, nc, old, nc))
		c := vc.fresh(x.Name(), "Slice")
		vc.define(c, sx("mk-slice", arr, "0", sx("s_len", v.S), sx("s_len", v.S)))
		vc.regs[x] = Val{K: KSlice, T: to, S: c}
	case fk == KInt && tk == KStr:
		// string(rune): opaque non-empty string of 1..4 bytes
		s := vc.fresh(x.Name(), "Str")
		vc.local(and(sx("<=", "1", sx("s_len", s)), sx("<=", sx("s_len", s), "4")))
		vc.local(implies(and(sx("<=", "0", v.S), sx("<", v.S, "128")), and(eq(sx("s_len", s), "1"), eq(sx("s_at", s, "0"), v.S))))
		vc.regs[x] = Val{K: KStr, T: to, S: s}
	case tk == KOpaque || fk == KOpaque:
		r := Val{K: tk, T: to, S: vc.fresh(x.Name(), sortOfKind(tk))}
		vc.local(vc.typeAssume(r, "0"))
		vc.regs[x] = r
	default:
		panic(unsupported("convert %s -> %s", from, to))
	}
}

// convInt converts an integer value to integer type to (wrap / sign-fold).
func (vc *VC) convInt(v Val, to types.Type) Val {
	lo1, hi1, ok1 := intRange(v.T)
	lo2, hi2, ok2 := intRange(to)
	_ = lo1
	_ = hi1
	r := Val{K: KInt, T: to, S: v.S}
	if !ok1 || !ok2 {
		return r
	}
	if rangeWithin(v.T, to) {
		return r
	}
	bits := intBits(to)
	m := sx("mod", v.S, pow2(bits))
	if isUnsigned(to) {
		r.S = m
	} else {
		r.S = ite(sx(">=", m, pow2(bits-1)), sx("-", m, pow2(bits)), m)
	}
	_ = lo2
	_ = hi2
	return r
}

func rangeWithin(from, to types.Type) bool {
	fb, tb := intBits(from), intBits(to)
	fu, tu := isUnsigned(from), isUnsigned(to)
	switch {
	case fu == tu:
		return fb <= tb
	case fu && !tu:
		return fb < tb
	}
	return false
}

func (vc *VC) execMakeInterface(x *ssa.MakeInterface, st *State) {
	v := vc.val(x.X)
	r := Val{K: KIface, T: x.Type(), S: vc.fresh(x.Name(), "Int")}
	inner := v
	r.Inner = &inner
	vc.local(sx("<", "0", r.S))
	// remember the dynamic type and payload through uninterpreted functions
	vc.declareRaw("fun:iface_tag", "(declare-fun iface_tag (Int) Int)")
	vc.local(eq(sx("iface_tag", r.S), num(int64(vc.prog.typeTag(x.X.Type())))))
	if v.K == KPtr && v.Heap == "" && v.Cell == nil {
		vc.declareRaw("fun:iface_ptr", "(declare-fun iface_ptr (Int) Addr)")
		vc.local(eq(sx("iface_ptr", r.S), v.S))
	}
	if v.K == KInt {
		vc.declareRaw("fun:iface_int", "(declare-fun iface_int (Int) Int)")
		vc.local(eq(sx("iface_int", r.S), v.S))
	}
	if v.K == KStr {
		vc.declareRaw("fun:iface_str", "(declare-fun iface_str (Int) Str)")
		vc.local(eq(sx("iface_str", r.S), v.S))
	}
	vc.regs[x] = r
}

func (vc *VC) execMakeSlice(x *ssa.MakeSlice, st *State) {
	l := vc.val(x.Len)
	c := vc.val(x.Cap)
	vc.oblige("safe", "makeslice", []string{"C03"}, and(sx("<=", "0", l.S), sx("<=", l.S, c.S)), nil)
	arr := vc.fresh("arr_"+x.Name(), "Addr")
	vc.define(arr, vc.newRoot(st))
	et := elemTypeOf(x.Type())
	vc.zeroArray(st, et, arr)
	s := vc.fresh(x.Name(), "Slice")
	vc.define(s, sx("mk-slice", arr, "0", l.S, c.S))
	vc.regs[x] = Val{K: KSlice, T: x.Type(), S: s}
}

// zeroArray zero-initialises all elements of a fresh backing array.
func (vc *VC) zeroArray(st *State, et types.Type, arr string) {
	var comps []struct {
		name, zero string
		path       []int
	}
	var walk func(t types.Type, path []int)
	walk = func(t types.Type, path []int) {
		if isScalarType(t) {
			return
		}
		stt, ok := t.Underlying().(*types.Struct)
		if !ok {
			panic(unsupported("slice of arrays"))
		}
		for i := 0; i < stt.NumFields(); i++ {
			ft := stt.Field(i).Type()
			p := append(append([]int{}, path...), i)
			if isScalarType(ft) {
				comps = append(comps, struct {
					name, zero string
					path       []int
				}{vc.regComp(fieldComp(t, i), sortOfType(ft)), vc.zero(ft).S, path})
			} else {
				walk(ft, p)
			}
		}
	}
	if isScalarType(et) {
		comps = append(comps, struct {
			name, zero string
			path       []int
		}{vc.regComp(elemComp(et), sortOfType(et)), vc.zero(et).S, nil})
	} else {
		walk(et, nil)
	}
	for _, c := range comps {
		old := vc.heap(st, c.name)
		nc := vc.fresh(strings.Trim(c.name, "|"), vc.compSort(c.name))
		st.heaps[c.name] = nc
		vc.touched[c.name] = true
		a := "(elem " + arr + " k!)"
		for _, f := range c.path {
			a = sx("fld", a, num(int64(f)))
		}
		vc.local(fmt.Sprintf("(forall ((k! Int)) (! (= (select %s %s) %s) :pattern ((select %s %s))))", nc, a, c.zero, nc, a))
		vc.local(fmt.Sprintf("(forall ((a! Addr)) (! (=> (not (= (rootOf a!) (rootOf %s))) (= (select %s a!) (select %s a!))) :pattern ((select %s a!))))", arr, nc, old, nc))
	}
}

func (vc *VC) execMakeClosure(x *ssa.MakeClosure, st *State) {
	fn := x.Fn.(*ssa.Function)
	v := Val{K: KFunc, T: x.Type(), Fn: fn, S: "1"}
	for _, b := range x.Bindings {
		v.Fs = append(v.Fs, vc.val(b))
	}
	vc.regs[x] = v
}

func (vc *VC) execTypeAssert(x *ssa.TypeAssert, st *State) {
	v := vc.val(x.X)
	vc.declareRaw("fun:iface_tag", "(declare-fun iface_tag (Int) Int)")
	var isT string
	if types.IsInterface(x.AssertedType) {
		isT = vc.fresh("implements", "Bool")
	} else {
		isT = and(not(eq(v.S, "0")), eq(sx("iface_tag", v.S), num(int64(vc.prog.typeTag(x.AssertedType)))))
	}
	var res Val
	if types.IsInterface(x.AssertedType) {
		res = Val{K: KIface, T: x.AssertedType, S: v.S}
	} else {
		res = vc.freshVal(x.Name(), x.AssertedType)
		if res.K == KPtr {
			vc.declareRaw("fun:iface_ptr", "(declare-fun iface_ptr (Int) Addr)")
			vc.local(implies(isT, eq(res.S, sx("iface_ptr", v.S))))
			vc.local(implies(isT, not(eq(res.S, "nil"))))
			vc.assume(vc.typeAssume(res, st.alloc))
		}
	}
	if x.CommaOk {
		okc := vc.fresh(x.Name()+"_ok", "Bool")
		vc.define(okc, isT)
		vc.regs[x] = Val{K: KTuple, T: x.Type(), Fs: []Val{res, {K: KBool, T: types.Typ[types.Bool], S: okc}}}
		return
	}
	vc.oblige("safe", "typeassert", []string{"C03"}, isT, nil)
	vc.regs[x] = res
}

func (vc *VC) execReturn(x *ssa.Return, st *State) {
	vc.retCount++
	var results []Val
	for _, r := range x.Results {
		results = append(results, vc.val(r))
	}
	if vc.fc == nil {
		return
	}
	env := vc.contractEnv(results)
	vc.assumeOwnLemmas(st)
	// locals visible for at-return clauses
	lenv := vc.localEnv(x.Block(), env)
	for i, c := range vc.fc.Ensures {
		name := c.Label
		if name == "" {
			name = fmt.Sprintf("%d", i)
		}
		e := env
		var goal string
		if c.Kind == "at-return" {
			// clauses over locals apply only where those locals are in scope
			g, ok := vc.tryEvalBool(c.E, lenv, st, vc.entry)
			if !ok {
				continue
			}
			goal = g
		} else {
			goal = vc.evalBool(c.E, e, st, vc.entry)
		}
		vc.obligeState = st
		vc.oblige("post", fmt.Sprintf("%s@%s", name, vc.retSite(x)), c.Props, goal, c)
		vc.obligeState = nil
	}
}

func (vc *VC) tryEvalBool(e Expr, env *Env, st, old *State) (res string, ok bool) {
	defer func() {
		if r := recover(); r != nil {
			if u, isU := r.(unsupportedErr); isU && (strings.Contains(u.msg, "unknown identifier") || strings.Contains(u.msg, "not allocated") || strings.Contains(u.msg, "not initialised")) {
				ok = false
				return
			}
			panic(r)
		}
	}()
	return vc.evalBool(e, env, st, old), true
}

// retSite names a return site structurally: the label of the innermost
// enclosing switch case (if any) plus the ordinal of the return within it,
// otherwise the ordinal of the return in the function. Line numbers are not
// used, so unrelated edits do not rename obligations.
func (vc *VC) retSite(x *ssa.Return) string {
	if s, ok := vc.retNames[x]; ok {
		return s
	}
	if vc.retNames == nil {
		vc.retNames = map[*ssa.Return]string{}
		vc.retSeen = map[string]int{}
	}
	label := vc.prog.caseLabel(x.Pos())
	key := "ret"
	if label != "" {
		key = "case " + label + "/ret"
	}
	vc.retSeen[key]++
	name := fmt.Sprintf("%s%d", key, vc.retSeen[key])
	vc.retNames[x] = name
	return name
}

// deadBlocks finds ancestor blocks that cannot lie on any execution reaching
// the obligation (e.g. the "found" branch when the obligation sits on the
// "not found" path): one incremental solver run over the quantifier-free
// facts, asking for each ancestor whether it can be reached together with the
// obligation's own reach condition. Their facts are vacuous for this
// obligation and are dropped (dropping facts is always sound).
func (ob *Obligation) deadBlocks() map[int]bool {
	vc := ob.vc
	if vc == nil || ob.raw != "" || os.Getenv("GOVC_NODEAD") != "" {
		return nil
	}
	key := fmt.Sprintf("%d|%s", ob.blk, ob.reach)
	vc.deadMu.Lock()
	if d, ok := vc.deadCache[key]; ok {
		vc.deadMu.Unlock()
		return d
	}
	vc.deadMu.Unlock()
	// candidate ancestors: those carrying quantified facts
	cand := map[int]int{}
	for _, f := range vc.facts {
		if f.blk >= 0 && f.blk != ob.blk && vc.anc[f.blk][ob.blk] && strings.Contains(f.text, "(forall ") {
			cand[f.blk]++
		}
	}
	dead := map[int]bool{}
	if len(cand) >= 2 {
		var b strings.Builder
		b.WriteString(preludeDecls)
		b.WriteString(preludeExtra)
		for _, d := range vc.decls {
			b.WriteString(d + "\n")
		}
		for _, f := range vc.facts {
			if strings.Contains(f.text, "(forall ") || strings.Contains(f.text, "(exists ") || strings.Contains(f.text, "spec_") {
				continue
			}
			if f.blk == -1 || (f.blk == ob.blk && f.seq < ob.seq) || (f.blk != ob.blk && f.blk >= 0 && vc.anc[f.blk][ob.blk]) {
				b.WriteString("(assert " + f.text + ")\n")
			}
		}
		b.WriteString("(assert " + ob.reach + ")\n")
		var blks []int
		for k := range cand {
			blks = append(blks, k)
		}
		sort.Ints(blks)
		for _, k := range blks {
			r := vc.reachB[vc.order[k]]
			b.WriteString("(push)\n(assert " + r + ")\n(check-sat)\n(pop)\n")
		}
		f, err := os.CreateTemp("", "govc-dead-*.smt2")
		if err == nil {
			f.WriteString(b.String())
			f.Close()
			out, _ := exec.Command("z3-new", "-T:5", f.Name()).Output()
			if os.Getenv("GOVC_KEEPDEAD") == "" {
				os.Remove(f.Name())
			}
			lines := strings.Fields(string(out))
			if len(lines) == len(blks) {
				for i, k := range blks {
					if lines[i] == "unsat" {
						dead[k] = true
						if os.Getenv("GOVC_DEBUGDEAD") != "" {
							fmt.Fprintf(os.Stderr, "dead: ob %s blk %d (ssa block %d) dead ssa block %d\n", ob.Name, ob.blk, vc.order[ob.blk].Index, vc.order[k].Index)
						}
					}
				}
			}
		}
	}
	vc.deadMu.Lock()
	if vc.deadCache == nil {
		vc.deadCache = map[string]map[int]bool{}
	}
	vc.deadCache[key] = dead
	vc.deadMu.Unlock()
	return dead
}

// isMapComp tells whether comp is one of the heap components of maps of type t.
func isMapComp(comp string, t types.Type) bool {
	if _, ok := t.Underlying().(*types.Map); !ok {
		return false
	}
	return comp == mapDomComp(t) || comp == mapLenComp(t) || comp == mapValComp(t) || strings.HasPrefix(comp, strings.TrimSuffix(mapValComp(t), "|")+"#")
}
