package main

// genLemmas generates the obligations of spec-level lemmas tagged with prop.
func genLemmas(P *Program, prop string) ([]*Obligation, []string) {
	return nil, nil
}
