package main

import (
	"fmt"
	"go/types"
	"strings"
)

// genLemmas generates the obligations of spec-level lemmas. A lemma is proved
// over an arbitrary heap; with "induction <measure>" the induction hypothesis
// (the lemma for all parameter values with a smaller non-negative measure) is
// assumed.
func genLemmas(P *Program, prop string) (obs []*Obligation, errs []string) {
	for _, lm := range P.contracts.Lemmas {
		in := prop == ""
		for _, p := range lm.Props {
			if p == prop {
				in = true
			}
		}
		if !in {
			continue
		}
		ob, err := genLemma(P, lm)
		if err != nil {
			errs = append(errs, err.Error())
			continue
		}
		obs = append(obs, ob)
	}
	return
}

func genLemma(P *Program, lm *Lemma) (ob *Obligation, err error) {
	defer func() {
		if r := recover(); r != nil {
			if u, ok := r.(unsupportedErr); ok {
				err = fmt.Errorf("lemma %s: %v", lm.Name, u)
				return
			}
			panic(r)
		}
	}()
	vc := &VC{prog: P, declSet: map[string]bool{}, compSorts: map[string]string{}, touched: map[string]bool{},
		strLits: map[string]string{}, params: map[string]Val{}, counters: map[string]int{}, usedExt: map[string]bool{}, usedSpecs: map[string]bool{}}
	vc.declare("|alloc@0|", "Int")
	vc.curReach = "true"
	st := &State{heaps: map[string]string{}, pseudo: map[string]string{}, alloc: "|alloc@0|"}
	var pkg *types.Package
	for _, p := range P.allPkgs {
		if p.Path() == lm.Pkg {
			pkg = p
		}
	}
	vc.lemmaPkg = pkg
	mkEnv := func(prefix string, declare bool) (*Env, []string, []string) {
		env := &Env{vc: vc, names: map[string]envEntry{}, pkg: pkg}
		var binders, guards []string
		for _, p := range lm.Params {
			t := P.resolveType(p.Type, pkg)
			name := "|" + prefix + p.Name + "|"
			v := Val{K: kindOf(t), T: t, S: name}
			if declare {
				vc.declare(name, sortOfType(t))
			}
			binders = append(binders, "("+name+" "+sortOfType(t)+")")
			if g := vc.typeAssume(v, st.alloc); g != "true" {
				guards = append(guards, g)
			}
			env.names[p.Name] = envEntry{val: &v}
		}
		return env, binders, guards
	}
	env, _, guards := mkEnv("l:", true)
	var hyps []string
	hyps = append(hyps, guards...)
	for _, c := range lm.Requires {
		hyps = append(hyps, vc.evalBool(c.E, env, st, st))
	}
	var goals []string
	for _, c := range lm.Ensures {
		goals = append(goals, vc.evalBool(c.E, env, st, st))
	}
	// axioms (assumptions stated in the contract files, listed in the evidence)
	for _, ax := range P.contracts.Axioms {
		aenv := &Env{vc: vc, names: map[string]envEntry{}, pkg: pkg}
		hyps = append(hyps, vc.evalBool(ax.E, aenv, st, st))
	}
	// previously stated lemmas used as hypotheses (each is an obligation of
	// its own)
	for _, u := range lm.Uses {
		var ul *Lemma
		for _, x := range P.contracts.Lemmas {
			if x.Name == u {
				ul = x
			}
		}
		if ul == nil {
			return nil, fmt.Errorf("lemma %s uses unknown lemma %s", lm.Name, u)
		}
		uenv := &Env{vc: vc, names: map[string]envEntry{}, pkg: pkg}
		var binders, uh []string
		for _, p := range ul.Params {
			t := P.resolveType(p.Type, pkg)
			name := "|u:" + ul.Name + ":" + p.Name + "|"
			v := Val{K: kindOf(t), T: t, S: name}
			binders = append(binders, "("+name+" "+sortOfType(t)+")")
			if g := vc.typeAssume(v, st.alloc); g != "true" {
				uh = append(uh, g)
			}
			uenv.names[p.Name] = envEntry{val: &v}
		}
		for _, c := range ul.Requires {
			uh = append(uh, vc.evalBool(c.E, uenv, st, st))
		}
		var ug []string
		for _, c := range ul.Ensures {
			ug = append(ug, vc.evalBool(c.E, uenv, st, st))
		}
		hyps = append(hyps, fmt.Sprintf("(forall (%s) (=> %s %s))", strings.Join(binders, " "), and(uh...), and(ug...)))
	}
	if lm.Induct != "" {
		me, perr := parseExpr(lm.Induct)
		if perr != nil {
			return nil, fmt.Errorf("lemma %s: %v", lm.Name, perr)
		}
		m0 := vc.evalVal(me, env, st, st).S
		ienv, binders, iguards := mkEnv("i:", false)
		m1 := vc.evalVal(me, ienv, st, st).S
		var ihyp []string
		ihyp = append(ihyp, iguards...)
		ihyp = append(ihyp, sx("<=", "0", m1), sx("<", m1, m0))
		for _, c := range lm.Requires {
			ihyp = append(ihyp, vc.evalBool(c.E, ienv, st, st))
		}
		var igoal []string
		for _, c := range lm.Ensures {
			igoal = append(igoal, vc.evalBool(c.E, ienv, st, st))
		}
		hyps = append(hyps, fmt.Sprintf("(forall (%s) (=> %s %s))", strings.Join(binders, " "), and(ihyp...), and(igoal...)))
	}
	var b strings.Builder
	b.WriteString(prelude)
	b.WriteString(preludeExtra)
	for _, d := range vc.decls {
		b.WriteString(d + "\n")
	}
	b.WriteString(vc.specDecls())
	for _, f := range vc.facts {
		b.WriteString("(assert " + f.text + ")\n")
	}
	for _, h := range hyps {
		b.WriteString("(assert " + h + ")\n")
	}
	b.WriteString("(assert (not " + and(goals...) + "))\n(check-sat)\n")
	return &Obligation{Name: "lemma:" + lm.Name, Class: "lemma", Props: lm.Props, Func: "lemma " + lm.Name, raw: b.String()}, nil
}
