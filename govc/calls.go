package main

import (
	"fmt"
	"go/types"
	"sort"
	"strings"

	"golang.org/x/tools/go/ssa"
)

// ---------- calls ----------

func (vc *VC) execCall(x *ssa.Call, st *State) {
	c := x.Common()
	var args []Val
	for _, a := range c.Args {
		args = append(args, vc.val(a))
	}
	if c.IsInvoke() {
		recv := vc.val(c.Value)
		key := "(" + typeName(c.Value.Type()) + ")." + c.Method.Name()
		fc := vc.prog.contracts.Funcs[key]
		if o := vc.prog.contracts.Funcs[key+"@"+vc.fn.RelString(vc.fn.Pkg.Pkg)]; o != nil {
			fc = o
		}
		vc.oblige("safe", "nil@invoke."+c.Method.Name(), []string{"C03"}, not(eq(recv.S, "0")), nil)
		all := append([]Val{recv}, args...)
		vc.regs[x] = vc.applyContract(x, key, fc, nil, all, nil, c.Signature(), st)
		return
	}
	switch callee := c.Value.(type) {
	case *ssa.Builtin:
		vc.execBuiltin(x, callee, args, st)
		return
	case *ssa.Function:
		vc.callStatic(x, callee, args, nil, st)
		return
	}
	fv := vc.val(c.Value)
	if fv.K == KFunc && fv.Fn != nil {
		vc.callStatic(x, fv.Fn, args, fv.Fs, st)
		return
	}
	// dynamic call through a function value: governed by an optional
	// "funcparam" contract on the enclosing function, else havoc.
	panic(unsupported("dynamic call through %s", c.Value.Name()))
}

func (vc *VC) callStatic(x *ssa.Call, callee *ssa.Function, args, binds []Val, st *State) {
	if callee.Pkg == nil && callee.Synthetic != "" && len(callee.Blocks) == 0 {
		panic(unsupported("synthetic callee %s", callee))
	}
	key := vc.prog.funcKey(callee)
	fc := vc.prog.contracts.Funcs[key]
	if o := vc.prog.contracts.Funcs[key+"@"+vc.fn.RelString(vc.fn.Pkg.Pkg)]; o != nil {
		fc = o
	}
	if callee.Name() == "ssa:deferstack" {
		vc.regs[x] = Val{K: KOpaque, T: x.Type(), S: "0"}
		return
	}
	// method on a package-level regexp etc: receiver provenance key
	if fc == nil && len(args) > 0 && args[0].Glob != "" && callee.Signature.Recv() != nil {
		k2 := args[0].Glob + "." + callee.Name()
		if f2 := vc.prog.contracts.Funcs[k2]; f2 != nil {
			vc.regs[x] = vc.applyContract(x, k2, f2, nil, args[1:], nil, callee.Signature, st)
			return
		}
	}
	vc.regs[x] = vc.applyContract(x, key, fc, callee, args, binds, callee.Signature, st)
}

// calleeEnv builds the environment in which a callee's contract is evaluated
// at a call site.
func (vc *VC) calleeEnv(fc *FuncContract, callee *ssa.Function, args, binds []Val, results []Val, sig *types.Signature) *Env {
	env := &Env{vc: vc, names: map[string]envEntry{}}
	if callee != nil {
		env.pkg = callee.Pkg.Pkg
		for i, p := range callee.Params {
			if i < len(args) {
				v := args[i]
				env.names[p.Name()] = envEntry{val: &v}
			}
		}
		for i, fv := range callee.FreeVars {
			if i < len(binds) {
				b := binds[i]
				pt := fv.Type().(*types.Pointer).Elem()
				env.names[fv.Name()] = envEntry{lazy: func(s *State) Val { return vc.derefPtr(b, pt, s) }}
			}
		}
		// "option closure=param:fn": the function-typed parameter is always the
		// closure fn (checked here, at every call site); the variables fn
		// captures are visible to the contract under their own names
		if fc != nil && fc.Opts["closure"] != "" {
			pf := strings.SplitN(fc.Opts["closure"], ":", 2)
			ok := false
			for i, p := range callee.Params {
				if p.Name() == pf[0] && i < len(args) && len(pf) == 2 {
					a := args[i]
					if a.K == KFunc && a.Fn != nil && a.Fn.Name() == pf[1] {
						ok = true
						for j, fv := range a.Fn.FreeVars {
							if j < len(a.Fs) {
								b := a.Fs[j]
								pt := fv.Type().(*types.Pointer).Elem()
								env.names[fv.Name()] = envEntry{lazy: func(s *State) Val { return vc.derefPtr(b, pt, s) }}
							}
						}
					}
				}
			}
			if !ok {
				panic(unsupported("the contract of %s requires parameter %s to be the closure %s at every call", callee.Name(), pf[0], pf[len(pf)-1]))
			}
		}
	} else if fc != nil {
		for i, n := range fc.ExtNames {
			if i < len(args) {
				v := args[i]
				env.names[n] = envEntry{val: &v}
			}
		}
	}
	// results
	if results != nil {
		rn := resultNames(sig, fc)
		for i, r := range results {
			v := r
			if i < len(rn) {
				env.names[rn[i]] = envEntry{val: &v}
			}
			env.names[fmt.Sprintf("result%d", i)] = envEntry{val: &v}
			if len(results) == 1 {
				env.names["result"] = envEntry{val: &v}
			}
		}
	}
	if env.pkg == nil {
		env.pkg = vc.fn.Pkg.Pkg
	}
	return env
}

func resultNames(sig *types.Signature, fc *FuncContract) []string {
	var out []string
	if fc != nil && fc.Extern && len(fc.ExtRes) > 0 {
		return fc.ExtRes
	}
	for i := 0; i < sig.Results().Len(); i++ {
		n := sig.Results().At(i).Name()
		if n == "" || n == "_" {
			n = fmt.Sprintf("result%d", i)
		}
		out = append(out, n)
	}
	return out
}

func (vc *VC) derefPtr(p Val, t types.Type, st *State) Val {
	if p.Cell != nil {
		return st.cells[p.Cell]
	}
	if isScalarType(t) {
		h := p.Heap
		if h == "" {
			h = vc.regComp(elemComp(t), sortOfType(t))
		}
		return vc.loadAt(st, t, p.S, h)
	}
	return vc.loadAt(st, t, p.S, "")
}

func (vc *VC) applyContract(x *ssa.Call, key string, fc *FuncContract, callee *ssa.Function, args, binds []Val, sig *types.Signature, st *State) Val {
	site := calleeShort(key)
	if fc != nil {
		fc.Used = true
	}
	// 1. preconditions
	if fc != nil {
		if u := fc.Opts["uses"]; u != "" {
			for _, ln := range strings.Split(u, ",") {
				vc.assume(vc.lemmaFact(strings.TrimSpace(ln), st))
			}
		}
		env := vc.calleeEnv(fc, callee, args, binds, nil, sig)
		for i, c := range fc.Requires {
			name := c.Label
			if name == "" {
				name = fmt.Sprintf("%d", i)
			}
			goal := vc.evalBool(c.E, env, st, st)
			props := c.Props
			if len(props) == 0 {
				props = []string{"C03"}
			}
			vc.oblige("pre", site+"."+name, props, goal, c)
		}
	}
	// 2. effects
	pre := st.clone()
	eff := vc.prog.callEffects(x, vc)
	if callee != nil && vc.prog.inRepo(callee) {
		eff = vc.prog.funcEffects(callee)
	}
	if fc == nil && callee == nil {
		vc.usedExt[key+" (no contract: assumed pure, result unconstrained)"] = true
	} else if fc != nil && fc.Extern {
		vc.usedExt[key] = true
	}
	if eff.allocs {
		na := vc.fresh("alloc", "Int")
		vc.local(sx("<=", st.alloc, na))
		st.alloc = na
	}
	var comps []string
	for c := range eff.comps {
		comps = append(comps, c)
	}
	sort.Strings(comps)
	// A callee that modifies nothing (it writes only memory it allocates
	// itself) and returns only scalars cannot hand any of that memory to the
	// caller: the caller-visible heap is unchanged, so no new heap versions
	// are introduced (the allocation counter still advances).
	if fc != nil && !fc.Extern && fc.Modifies != nil && modifiesNothing(fc) && scalarResults(sig) {
		comps = nil
	}
	envPre := vc.calleeEnv(fc, callee, args, binds, nil, sig)
	freshOnly := map[string]bool{}
	for _, c := range comps {
		vc.regCompFull(c, eff.comps[c])
		old := vc.heap(st, c)
		nc := vc.fresh(strings.Trim(c, "|"), vc.compSort(c))
		st.heaps[c] = nc
		vc.touched[c] = true
		if cl := closureFact(nc, vc.compSort(c), st.alloc); cl != "" {
			vc.local(cl)
		}
		if fc == nil || fc.Modifies == nil {
			if fc == nil && callee != nil {
				// uncontracted in-repo callee: nothing known
				continue
			}
			if fc != nil && fc.Modifies == nil && !fc.Extern {
				continue
			}
		}
		idxSort := "Addr"
		if strings.HasPrefix(vc.compSort(c), "(Array Int") {
			idxSort = "Int"
		}
		foot, whole := vc.calleeFootprint(fc, c, "a!", envPre, pre, callee)
		vc.callFrameCheck(site, c, foot, whole, idxSort)
		if whole {
			continue
		}
		if foot == "false" && idxSort == "Addr" {
			freshOnly[c] = true
		}
		var guard string
		if idxSort == "Addr" {
			guard = and(sx("<", sx("rootOf", "a!"), pre.alloc), not(foot))
		} else {
			guard = not(foot)
		}
		vc.assume(fmt.Sprintf("(forall ((a! %s)) (! (=> %s (= (select %s a!) (select %s a!))) :pattern ((select %s a!))))", idxSort, guard, nc, old, nc))
	}
	vc.specFrame(func(c string) string { return vc.heap(pre, c) }, st, freshOnly, pre.alloc)
	// 3. results
	var res Val
	var results []Val
	n := sig.Results().Len()
	for i := 0; i < n; i++ {
		r := vc.freshVal(fmt.Sprintf("%s_r%d", site, i), sig.Results().At(i).Type())
		vc.assume(vc.typeAssume(r, st.alloc))
		results = append(results, r)
	}
	switch n {
	case 0:
		res = Val{K: KTuple}
	case 1:
		res = results[0]
	default:
		res = Val{K: KTuple, T: sig.Results(), Fs: results}
	}
	// 4. postconditions
	vc.lastGhostResults = map[string]Val{}
	var coverBefore *Obligation
	if coverCalls && fc != nil && (fc.Extern || fc.Opts["assumed"] != "") && len(fc.Ensures) > 0 {
		coverBefore = vc.coverPoint("before-call " + site)
	}
	if coverBefore != nil {
		defer func() {
			after := vc.coverPoint("assumed-contract-consistent " + site)
			after.pairBefore = coverBefore
			vc.obs = append(vc.obs, after)
		}()
	}
	if fc != nil {
		env := vc.calleeEnv(fc, callee, args, binds, results, sig)
		for _, d := range fc.GResults {
			g, t := vc.parseGT(d.Type)
			var gv Val
			if g != nil {
				gv = Val{K: KArr, S: vc.fresh("gr_"+d.Name, g.sort()), Sort: g.sort(), GT: g}
			} else {
				gv = Val{K: kindOf(t), T: t, S: vc.fresh("gr_"+d.Name, sortOfType(t))}
			}
			gvc := gv
			env.names[d.Name] = envEntry{val: &gvc}
			vc.lastGhostResults[d.Name] = gv
		}
		for _, c := range fc.Ensures {
			if c.Kind == "at-return" {
				continue
			}
			vc.assumeL(vc.evalBool(c.E, env, st, pre), c.Label)
		}
	}
	return res
}

func calleeShort(key string) string {
	if i := strings.LastIndex(key, "/"); i >= 0 {
		key = key[i+1:]
	}
	return key
}

// calleeFootprint evaluates a callee's modifies clauses for one component.
func (vc *VC) calleeFootprint(fc *FuncContract, comp, av string, env *Env, pre *State, callee *ssa.Function) (string, bool) {
	if fc == nil || fc.Modifies == nil {
		return "true", true
	}
	var pkg *types.Package
	if callee != nil {
		pkg = callee.Pkg.Pkg
	} else {
		pkg = vc.fn.Pkg.Pkg
	}
	var parts []string
	for _, mc := range fc.Modifies {
		for _, mi := range mc.Mods {
			if mi.MapOf != nil {
				mv := vc.evalVal(mi.MapOf, env, pre, pre)
				if isMapComp(comp, mv.T) {
					parts = append(parts, eq(av, mv.S))
				}
				continue
			}
			if mi.Elems != nil {
				sv := vc.evalVal(mi.Elems, env, pre, pre)
				et := elemTypeOf(sv.T)
				if isScalarType(et) && elemComp(et) == comp {
					parts = append(parts, and(sx("(_ is elem)", av), eq(sx("epar", av), sx("sarr", sv.S)), sx("<=", sx("soff", sv.S), sx("eidx", av)), sx("<", sx("eidx", av), sx("+", sx("soff", sv.S), sx("slen", sv.S)))))
				}
				continue
			}
			for _, pat := range mi.Comps {
				if !vc.prog.compMatches(pat, comp, pkg) {
					continue
				}
				if mi.CallerFresh {
					parts = append(parts, sx(">=", sx("rootOf", av), "|alloc@0|"))
					continue
				}
				if mi.In != nil {
					sv := vc.evalVal(mi.In, env, pre, pre)
					if sv.K != KSlice {
						panic(unsupported("'in' needs a slice"))
					}
					parts = append(parts, and(sx("(_ is elem)", av), eq(sx("epar", av), sx("sarr", sv.S)), sx("<=", sx("soff", sv.S), sx("eidx", av)), sx("<", sx("eidx", av), sx("+", sx("soff", sv.S), sx("slen", sv.S)))))
					continue
				}
				if mi.After != nil {
					ob := vc.evalVal(mi.After, env, pre, pre)
					parts = append(parts, sx("<", sx("rootOf", vc.addrOf(ob)), sx("rootOf", av)))
					continue
				}
				if mi.At == nil {
					return "true", true
				}
				at := vc.evalVal(mi.At, env, pre, pre)
				parts = append(parts, eq(av, at.S))
			}
		}
	}
	return or(parts...), false
}

// ---------- builtins ----------

func (vc *VC) execBuiltin(x *ssa.Call, b *ssa.Builtin, args []Val, st *State) {
	switch b.Name() {
	case "len":
		vc.regs[x] = vc.lenOf(args[0], x.Call.Args[0].Type(), st)
	case "cap":
		a := args[0]
		switch a.K {
		case KSlice:
			vc.regs[x] = Val{K: KInt, T: x.Type(), S: sx("scap", a.S)}
		default:
			vc.regs[x] = vc.lenOf(a, x.Call.Args[0].Type(), st)
		}
	case "append":
		vc.regs[x] = vc.execAppend(x, args[0], args[1], st)
	case "copy":
		vc.regs[x] = vc.execCopy(x, args[0], args[1], st)
	case "delete":
		vc.execDelete(x, args[0], args[1], st)
		vc.regs[x] = Val{K: KTuple}
	case "print", "println":
		vc.regs[x] = Val{K: KTuple}
	case "ssa:wrapnilchk":
		vc.regs[x] = args[0]
	case "ssa:deferstack":
		vc.regs[x] = Val{K: KOpaque, T: x.Type(), S: "0"}
	case "min", "max":
		op := "<="
		if b.Name() == "max" {
			op = ">="
		}
		r := args[0]
		for _, a := range args[1:] {
			r = Val{K: KInt, T: x.Type(), S: ite(sx(op, r.S, a.S), r.S, a.S)}
		}
		vc.regs[x] = r
	default:
		panic(unsupported("builtin %s", b.Name()))
	}
}

func (vc *VC) lenOf(a Val, t types.Type, st *State) Val {
	it := types.Typ[types.Int]
	switch a.K {
	case KSlice:
		return Val{K: KInt, T: it, S: sx("slen", a.S)}
	case KStr:
		return Val{K: KInt, T: it, S: sx("s_len", a.S)}
	case KMap:
		comp := vc.regCompFull(mapLenComp(t), "(Array Addr Int)")
		r := Val{K: KInt, T: it, S: ite(eq(a.S, "nil"), "0", sx("select", vc.heap(st, comp), a.S))}
		vc.assume(sx("<=", "0", r.S))
		return r
	case KPtr:
		if p, ok := t.Underlying().(*types.Pointer); ok {
			if arr, ok := p.Elem().Underlying().(*types.Array); ok {
				return Val{K: KInt, T: it, S: num(arr.Len())}
			}
		}
	}
	if arr, ok := t.Underlying().(*types.Array); ok {
		return Val{K: KInt, T: it, S: num(arr.Len())}
	}
	panic(unsupported("len of %s", t))
}

// leafPaths enumerates the scalar leaves of an element type as
// (component, path of field indices).
type leaf struct {
	comp string
	path []int
	t    types.Type
}

func (vc *VC) leavesOf(t types.Type) []leaf {
	var out []leaf
	var walk func(t types.Type, path []int)
	walk = func(t types.Type, path []int) {
		stt, ok := t.Underlying().(*types.Struct)
		if !ok {
			if _, isArr := t.Underlying().(*types.Array); isArr {
				return
			}
			panic(unsupported("leavesOf %s", t))
		}
		for i := 0; i < stt.NumFields(); i++ {
			ft := stt.Field(i).Type()
			if isScalarType(ft) {
				out = append(out, leaf{vc.regComp(fieldComp(t, i), sortOfType(ft)), append([]int{}, path...), ft})
			} else {
				walk(ft, append(append([]int{}, path...), i))
			}
		}
	}
	if isScalarType(t) {
		return []leaf{{vc.regComp(elemComp(t), sortOfType(t)), nil, t}}
	}
	walk(t, nil)
	return out
}

func applyPath(a string, path []int) string {
	for _, f := range path {
		a = sx("fld", a, num(int64(f)))
	}
	return a
}

func (vc *VC) execAppend(x *ssa.Call, s, t Val, st *State) Val {
	et := elemTypeOf(x.Type())
	n := sx("slen", s.S)
	var m string
	tIsStr := t.K == KStr
	if tIsStr {
		m = sx("s_len", t.S)
	} else {
		m = sx("slen", t.S)
	}
	inplace := vc.fresh("append_inplace", "Bool")
	vc.define(inplace, sx("<=", sx("+", n, m), sx("scap", s.S)))
	if vc.fc != nil && vc.fc.Modifies != nil {
		// an append that fits the capacity writes into the existing backing
		// array beyond the old length: that array must be this function's own
		// or named in its modifies clause (otherwise two holders of the same
		// array - e.g. two concurrent renderings - write the same slots)
		covered := vc.footprintCoversArray("", s)
		alts := []string{not(inplace), eq(m, "0"), sx(">=", sx("rootOf", sx("sarr", s.S)), "|alloc@0|"), covered}
		whole := false
		for _, lf := range vc.leavesOf(et) {
			vc.regCompFull(lf.comp, vc.compSorts[lf.comp])
			foot, w := vc.footprint(lf.comp, applyPath(sx("elem", sx("sarr", s.S), sx("+", sx("soff", s.S), n)), lf.path))
			if w {
				whole = true
			} else {
				alts = append(alts, foot)
			}
			break
		}
		if !whole {
			vc.oblige("frame", "append-in-place", []string{"C14"}, or(alts...), nil)
		}
	}
	newArr := vc.fresh("append_arr", "Addr")
	vc.define(newArr, vc.newRoot(st))
	newCap := vc.fresh("append_cap", "Int")
	vc.local(sx("<=", sx("+", n, m), newCap))
	r := vc.fresh(x.Name(), "Slice")
	vc.define(r, ite(inplace,
		sx("mk-slice", sx("sarr", s.S), sx("soff", s.S), sx("+", n, m), sx("scap", s.S)),
		sx("mk-slice", newArr, "0", sx("+", n, m), newCap)))
	for _, lf := range vc.leavesOf(et) {
		old := vc.heap(st, lf.comp)
		nc := vc.fresh(strings.Trim(lf.comp, "|"), vc.compSort(lf.comp))
		st.heaps[lf.comp] = nc
		vc.touched[lf.comp] = true
		// appended elements, indexed by their final position j in [n, n+m)
		var srcT string
		if tIsStr {
			srcT = sx("s_at", t.S, sx("-", "j!", n))
		} else {
			srcT = sx("select", old, applyPath(sx("idx", t.S, sx("-", "j!", n)), lf.path))
		}
		dIn := applyPath(sx("idx", s.S, "j!"), lf.path)
		dNew := applyPath(sx("elem", newArr, "j!"), lf.path)
		rng := and(sx("<=", n, "j!"), sx("<", "j!", sx("+", n, m)))
		vc.local(fmt.Sprintf("(forall ((j! Int)) (! (=> (and %s %s) (= (select %s %s) %s)) :pattern ((select %s %s))))", inplace, rng, nc, dIn, srcT, nc, dIn))
		vc.local(fmt.Sprintf("(forall ((j! Int)) (! (=> (and (not %s) %s) (= (select %s %s) %s)) :pattern ((select %s %s))))", inplace, rng, nc, dNew, srcT, nc, dNew))
		// summary facts phrased over the result slice (consequences of the
		// case-wise facts; they spare the solver the case split)
		rIdx := applyPath(sx("idx", r, "j!"), lf.path)
		vc.local(fmt.Sprintf("(forall ((j! Int)) (! (=> (and (<= 0 j!) (< j! %s)) (= (select %s %s) (select %s %s))) :pattern ((select %s %s))))", n, nc, rIdx, old, applyPath(sx("idx", s.S, "j!"), lf.path), nc, rIdx))
		vc.local(fmt.Sprintf("(forall ((j! Int)) (! (=> %s (= (select %s %s) %s)) :pattern ((select %s %s))))", rng, nc, rIdx, srcT, nc, rIdx))
		// copied prefix when reallocated
		srcS := sx("select", old, applyPath(sx("idx", s.S, "j!"), lf.path))
		vc.local(fmt.Sprintf("(forall ((j! Int)) (! (=> (and (not %s) (<= 0 j!) (< j! %s)) (= (select %s %s) %s)) :pattern ((select %s %s))))", inplace, n, nc, dNew, srcS, nc, dNew))
		// frame: everything else unchanged. In place: only the m slots after
		// the old length change; reallocated: only the new array changes.
		vc.needUnpath(len(lf.path))
		u := fmt.Sprintf("(unpath%d a!)", len(lf.path))
		changed := fmt.Sprintf("(ite %s (and ((_ is elem) %s) (= (epar %s) (sarr %s)) (<= (+ (soff %s) %s) (eidx %s)) (< (eidx %s) (+ (soff %s) %s %s)) (= a! %s)) (= (rootOf a!) (rootOf %s)))",
			inplace, u, u, s.S, s.S, n, u, u, s.S, n, m,
			applyPath(sx("elem", sx("sarr", s.S), sx("eidx", u)), lf.path), newArr)
		vc.local(fmt.Sprintf("(forall ((a! Addr)) (! (=> (not %s) (= (select %s a!) (select %s a!))) :pattern ((select %s a!))))", changed, nc, old, nc))
	}
	return Val{K: KSlice, T: x.Type(), S: r}
}

// needUnpath declares the helper that strips n fld() layers from an address.
func (vc *VC) needUnpath(n int) {
	key := fmt.Sprintf("fun:unpath%d", n)
	body := "a"
	for i := 0; i < n; i++ {
		body = sx("fpar", body)
	}
	vc.declareRaw(key, fmt.Sprintf("(define-fun unpath%d ((a Addr)) Addr %s)", n, body))
}

func (vc *VC) execCopy(x *ssa.Call, dst, src Val, st *State) Val {
	et := elemTypeOf(dst.T)
	var m string
	if src.K == KStr {
		m = sx("s_len", src.S)
	} else {
		m = sx("slen", src.S)
	}
	n := vc.fresh(x.Name(), "Int")
	vc.define(n, ite(sx("<=", sx("slen", dst.S), m), sx("slen", dst.S), m))
	for _, lf := range vc.leavesOf(et) {
		old := vc.heap(st, lf.comp)
		nc := vc.fresh(strings.Trim(lf.comp, "|"), vc.compSort(lf.comp))
		st.heaps[lf.comp] = nc
		vc.touched[lf.comp] = true
		vc.frameCheckRange(lf.comp, dst, st)
		dk := applyPath(sx("idx", dst.S, "k!"), lf.path)
		var sk string
		if src.K == KStr {
			sk = sx("s_at", src.S, "k!")
		} else {
			sk = sx("select", old, applyPath(sx("idx", src.S, "k!"), lf.path))
		}
		vc.local(fmt.Sprintf("(forall ((k! Int)) (! (=> (and (<= 0 k!) (< k! %s)) (= (select %s %s) %s)) :pattern ((select %s %s))))", n, nc, dk, sk, nc, dk))
		vc.needUnpath(len(lf.path))
		u := fmt.Sprintf("(unpath%d a!)", len(lf.path))
		changed := fmt.Sprintf("(and ((_ is elem) %s) (= (epar %s) (sarr %s)) (<= (soff %s) (eidx %s)) (< (eidx %s) (+ (soff %s) %s)) (= a! %s))", u, u, dst.S, dst.S, u, u, dst.S, n,
			applyPath(sx("elem", sx("sarr", dst.S), sx("eidx", u)), lf.path))
		vc.local(fmt.Sprintf("(forall ((a! Addr)) (! (=> (not %s) (= (select %s a!) (select %s a!))) :pattern ((select %s a!))))", changed, nc, old, nc))
	}
	return Val{K: KInt, T: x.Type(), S: n}
}

// frameCheckRange: a bulk write into the elements of dst must be in frame.
func (vc *VC) frameCheckRange(comp string, dst Val, st *State) {
	if vc.fc == nil || vc.fc.Modifies == nil {
		return
	}
	foot, whole := vc.footprint(comp, "(elem (sarr "+dst.S+") 0)")
	if whole {
		return
	}
	_ = foot
	goal := or(sx(">=", sx("rootOf", sx("sarr", dst.S)), "|alloc@0|"), eq(sx("slen", dst.S), "0"), vc.footprintCoversArray(comp, dst))
	vc.oblige("frame", "copy@"+strings.Trim(comp, "|"), []string{"C14"}, goal, nil)
}

func (vc *VC) footprintCoversArray(comp string, dst Val) string {
	// true when an elems(...) clause names the same backing array
	if vc.fc == nil {
		return "false"
	}
	env := vc.contractEnv(nil)
	var parts []string
	for _, mc := range vc.fc.Modifies {
		for _, mi := range mc.Mods {
			if mi.Elems != nil {
				sv := vc.evalVal(mi.Elems, env, vc.entry, vc.entry)
				parts = append(parts, eq(sx("sarr", sv.S), sx("sarr", dst.S)))
			}
		}
	}
	return or(parts...)
}

// ---------- maps ----------

func mapKeySort(t types.Type) string {
	return sortOfType(t.Underlying().(*types.Map).Key())
}

func (vc *VC) mapComps(t types.Type) (dom, length string, vals []leaf) {
	mt := t.Underlying().(*types.Map)
	ks := sortOfType(mt.Key())
	dom = vc.regCompFull(mapDomComp(t), "(Array Addr (Array "+ks+" Bool))")
	length = vc.regCompFull(mapLenComp(t), "(Array Addr Int)")
	vt := mt.Elem()
	if isScalarType(vt) {
		vals = []leaf{{vc.regCompFull(mapValComp(t), "(Array Addr (Array "+ks+" "+sortOfType(vt)+"))"), nil, vt}}
	} else if stt, ok := vt.Underlying().(*types.Struct); ok {
		for i := 0; i < stt.NumFields(); i++ {
			ft := stt.Field(i).Type()
			if !isScalarType(ft) {
				panic(unsupported("map with nested struct values"))
			}
			name := strings.TrimSuffix(mapValComp(t), "|") + "#" + stt.Field(i).Name() + "|"
			vals = append(vals, leaf{vc.regCompFull(name, "(Array Addr (Array "+ks+" "+sortOfType(ft)+"))"), []int{i}, ft})
		}
	}
	return
}

func (vc *VC) execMakeMap(x *ssa.MakeMap, st *State) {
	t := x.Type()
	dom, length, _ := vc.mapComps(t)
	m := vc.fresh(x.Name(), "Addr")
	vc.define(m, vc.newRoot(st))
	ks := mapKeySort(t)
	vc.setHeap(st, dom, sx("store", vc.heap(st, dom), m, "((as const (Array "+ks+" Bool)) false)"))
	vc.setHeap(st, length, sx("store", vc.heap(st, length), m, "0"))
	vc.regs[x] = Val{K: KMap, T: t, S: m}
}

func (vc *VC) execLookup(x *ssa.Lookup, st *State) {
	m := vc.val(x.X)
	k := vc.val(x.Index)
	if m.K == KStr {
		vc.oblige("safe", "index", []string{"C03"}, and(sx("<=", "0", k.S), sx("<", k.S, sx("s_len", m.S))), nil)
		vc.regs[x] = Val{K: KInt, T: x.Type(), S: sx("s_at", m.S, k.S)}
		return
	}
	t := x.X.Type()
	dom, length, vals := vc.mapComps(t)
	mt := t.Underlying().(*types.Map)
	in := vc.fresh(x.Name()+"_in", "Bool")
	vc.define(in, and(not(eq(m.S, "nil")), sx("select", sx("select", vc.heap(st, dom), m.S), k.S)))
	vc.assume(implies(in, sx("<", "0", sx("select", vc.heap(st, length), m.S))))
	var v Val
	vt := mt.Elem()
	if isScalarType(vt) {
		z := vc.zero(vt)
		v = Val{K: kindOf(vt), T: vt, S: ite(in, sx("select", sx("select", vc.heap(st, vals[0].comp), m.S), k.S), z.S)}
		c := vc.fresh(x.Name(), sortOfType(vt))
		vc.define(c, v.S)
		v.S = c
		vc.assume(vc.typeAssume(v, st.alloc))
	} else {
		v = Val{K: KStruct, T: vt}
		for _, lf := range vals {
			z := vc.zero(lf.t)
			fv := Val{K: kindOf(lf.t), T: lf.t, S: ite(in, sx("select", sx("select", vc.heap(st, lf.comp), m.S), k.S), z.S)}
			c := vc.fresh(x.Name(), sortOfType(lf.t))
			vc.define(c, fv.S)
			fv.S = c
			vc.assume(vc.typeAssume(fv, st.alloc))
			v.Fs = append(v.Fs, fv)
		}
	}
	if x.CommaOk {
		vc.regs[x] = Val{K: KTuple, T: x.Type(), Fs: []Val{v, {K: KBool, T: types.Typ[types.Bool], S: in}}}
	} else {
		vc.regs[x] = v
	}
}

func (vc *VC) execMapUpdate(x *ssa.MapUpdate, st *State) {
	m := vc.val(x.Map)
	k := vc.val(x.Key)
	v := vc.val(x.Value)
	t := x.Map.Type()
	dom, length, vals := vc.mapComps(t)
	vc.oblige("safe", "nilmap", []string{"C03"}, not(eq(m.S, "nil")), nil)
	if vc.fc != nil && vc.fc.Modifies != nil {
		foot, whole := vc.footprint(dom, m.S)
		if !whole {
			vc.oblige("frame", "mapupdate", []string{"C14"}, or(sx(">=", sx("rootOf", m.S), "|alloc@0|"), foot), nil)
		}
	}
	d := vc.heap(st, dom)
	was := sx("select", sx("select", d, m.S), k.S)
	l := vc.heap(st, length)
	vc.setHeap(st, length, sx("store", l, m.S, ite(was, sx("select", l, m.S), sx("+", sx("select", l, m.S), "1"))))
	vc.setHeap(st, dom, sx("store", d, m.S, sx("store", sx("select", d, m.S), k.S, "true")))
	if len(vals) == 1 && vals[0].path == nil {
		h := vc.heap(st, vals[0].comp)
		vc.setHeap(st, vals[0].comp, sx("store", h, m.S, sx("store", sx("select", h, m.S), k.S, v.S)))
	} else {
		for _, lf := range vals {
			h := vc.heap(st, lf.comp)
			vc.setHeap(st, lf.comp, sx("store", h, m.S, sx("store", sx("select", h, m.S), k.S, v.Fs[lf.path[0]].S)))
		}
	}
}

func (vc *VC) execDelete(x *ssa.Call, m, k Val, st *State) {
	t := x.Call.Args[0].Type()
	dom, length, _ := vc.mapComps(t)
	if vc.fc != nil && vc.fc.Modifies != nil {
		foot, whole := vc.footprint(dom, m.S)
		if !whole {
			vc.oblige("frame", "mapdelete", []string{"C14"}, or(eq(m.S, "nil"), sx(">=", sx("rootOf", m.S), "|alloc@0|"), foot), nil)
		}
	}
	d := vc.heap(st, dom)
	was := and(not(eq(m.S, "nil")), sx("select", sx("select", d, m.S), k.S))
	l := vc.heap(st, length)
	vc.setHeap(st, length, ite(was, sx("store", l, m.S, sx("-", sx("select", l, m.S), "1")), l))
	vc.setHeap(st, dom, ite(eq(m.S, "nil"), d, sx("store", d, m.S, sx("store", sx("select", d, m.S), k.S, "false"))))
}

func (vc *VC) execRange(x *ssa.Range, st *State) {
	v := vc.val(x.X)
	vc.iterN++
	it := &iterInfo{m: v, isStr: v.K == KStr, id: vc.iterN}
	if it.isStr {
		it.visited = fmt.Sprintf("strpos%d", vc.iterN)
		vc.compSorts["pseudo:"+it.visited] = "Int"
		st.pseudo[it.visited] = "0"
	} else {
		ks := mapKeySort(x.X.Type())
		it.visited = fmt.Sprintf("visited%d", vc.iterN)
		vc.compSorts["pseudo:"+it.visited] = "(Array " + ks + " Bool)"
		st.pseudo[it.visited] = "((as const (Array " + ks + " Bool)) false)"
	}
	vc.regs[x] = Val{K: KIter, T: x.Type(), Iter: it}
}

func (vc *VC) execNext(x *ssa.Next, st *State) {
	itv := vc.val(x.Iter)
	it := itv.Iter
	tup := x.Type().(*types.Tuple)
	ok := vc.fresh(x.Name()+"_ok", "Bool")
	if it.isStr {
		// position-based iteration over the bytes of a string; the decoded
		// rune is abstracted (width 1..4, ASCII decoded exactly).
		pos := st.pseudo[it.visited]
		s := it.m.S
		vc.define(ok, sx("<", pos, sx("s_len", s)))
		w := vc.fresh(x.Name()+"_w", "Int")
		r := vc.fresh(x.Name()+"_rune", "Int")
		vc.assume(implies(ok, and(sx("<=", "1", w), sx("<=", w, "4"), sx("<=", sx("+", pos, w), sx("s_len", s)), sx("<=", "0", r), sx("<=", r, "1114111"))))
		vc.assume(implies(and(ok, sx("<", sx("s_at", s, pos), "128")), and(eq(w, "1"), eq(r, sx("s_at", s, pos)))))
		vc.assume(implies(and(ok, sx(">=", sx("s_at", s, pos), "128")), sx(">=", r, "128")))
		np := vc.fresh(it.visited, "Int")
		vc.define(np, ite(ok, sx("+", pos, w), pos))
		st.pseudo[it.visited] = np
		vc.regs[x] = Val{K: KTuple, T: tup, Fs: []Val{{K: KBool, T: tup.At(0).Type(), S: ok}, {K: KInt, T: tup.At(1).Type(), S: pos}, {K: KInt, T: tup.At(2).Type(), S: r}}}
		return
	}
	mt := it.m.T
	dom, length, vals := vc.mapComps(mt)
	m := it.m.S
	kt := mt.Underlying().(*types.Map).Key()
	k := vc.freshVal(x.Name()+"_k", kt)
	vis := st.pseudo[it.visited]
	d := sx("select", vc.heap(st, dom), m)
	vc.assume(implies(ok, and(not(eq(m, "nil")), sx("select", d, k.S), not(sx("select", vis, k.S)))))
	vc.assume(implies(ok, vc.typeAssume(k, st.alloc)))
	vc.assume(implies(ok, sx("<", "0", sx("select", vc.heap(st, length), m))))
	ks := sortOfType(kt)
	vc.assume(implies(not(ok), or(eq(m, "nil"), fmt.Sprintf("(forall ((k! %s)) (! (=> (select %s k!) (select %s k!)) :pattern ((select %s k!))))", ks, d, vis, d))))
	nv := vc.fresh(it.visited, vc.pseudoSort(it.visited))
	vc.define(nv, ite(ok, sx("store", vis, k.S, "true"), vis))
	st.pseudo[it.visited] = nv
	var v Val
	vt := mt.Underlying().(*types.Map).Elem()
	if isScalarType(vt) {
		v = Val{K: kindOf(vt), T: vt, S: sx("select", sx("select", vc.heap(st, vals[0].comp), m), k.S)}
		c := vc.fresh(x.Name()+"_v", sortOfType(vt))
		vc.define(c, v.S)
		v.S = c
		vc.assume(implies(ok, vc.typeAssume(v, st.alloc)))
	} else {
		v = Val{K: KStruct, T: vt}
		for _, lf := range vals {
			fv := Val{K: kindOf(lf.t), T: lf.t, S: sx("select", sx("select", vc.heap(st, lf.comp), m), k.S)}
			c := vc.fresh(x.Name()+"_v", sortOfType(lf.t))
			vc.define(c, fv.S)
			fv.S = c
			vc.assume(implies(ok, vc.typeAssume(fv, st.alloc)))
			v.Fs = append(v.Fs, fv)
		}
	}
	vc.regs[x] = Val{K: KTuple, T: tup, Fs: []Val{{K: KBool, T: tup.At(0).Type(), S: ok}, k, v}}
}

// ---------- globals ----------

func (vc *VC) loadGlobal(name string, t types.Type, g *ssa.Global, st *State) Val {
	k := kindOf(t)
	cname := "|glob:" + name + "|"
	v := Val{K: k, T: t, S: cname, Glob: name}
	info := vc.prog.globalInfo(g)
	switch k {
	case KIface:
		// package-level error values: distinct, non-nil, fixed identities
		v.S = num(int64(vc.prog.globalID(name)))
		return v
	case KSlice:
		vc.declare(cname, "Slice")
		vc.global(and(sx("wfslice", cname), sx("<", sx("rootOf", sx("sarr", cname)), "|alloc@0|"), sx("<=", "0", sx("rootOf", sx("sarr", cname)))))
		if info.bytes != nil {
			vc.usedExt["global "+name+" keeps its initial contents"] = true
			vc.global(and(eq(sx("slen", cname), num(int64(len(info.bytes)))), not(eq(sx("sarr", cname), "nil"))))
			et := elemTypeOf(t)
			heap := vc.heap(st, vc.regComp(elemComp(et), "Int"))
			for i, b := range info.bytes {
				vc.assume(eq(sx("select", heap, sliceElemAddr(cname, num(int64(i)))), num(int64(b))))
			}
		}
		return v
	case KPtr, KMap:
		vc.declare(cname, "Addr")
		vc.global(and(not(eq(cname, "nil")), sx("<", sx("rootOf", cname), "|alloc@0|"), sx("<=", "0", sx("rootOf", cname))))
		return v
	case KStruct, KTuple:
		panic(unsupported("load of composite global %s", name))
	}
	vc.declare(cname, sortOfKind(k))
	vc.global(vc.typeAssume(v, "|alloc@0|"))
	return v
}


// callFrameCheck: what a callee may modify (of pre-existing memory) must lie
// within the caller's own modifies clause.
func (vc *VC) callFrameCheck(site, comp, calleeFoot string, calleeWhole bool, idxSort string) {
	if vc.fc == nil || vc.fc.Modifies == nil {
		return
	}
	if !calleeWhole && calleeFoot == "false" {
		return
	}
	callerFoot, callerWhole := vc.footprint(comp, "a!")
	if callerWhole {
		return
	}
	cf := calleeFoot
	if calleeWhole {
		cf = "true"
	}
	var goal string
	if idxSort == "Addr" {
		goal = fmt.Sprintf("(forall ((a! Addr)) (=> (and (< (rootOf a!) |alloc@0|) %s) %s))", cf, callerFoot)
	} else {
		goal = fmt.Sprintf("(forall ((a! Int)) (=> %s %s))", cf, callerFoot)
	}
	vc.oblige1("frame", "call@"+site+"."+strings.Trim(strings.TrimPrefix(strings.TrimPrefix(comp, "|H:"), "|E:"), "|"), []string{"C14"}, goal, nil)
}

// lemmaFact renders a (separately proved) lemma as a closed formula over the
// heap of the given state.
func (vc *VC) lemmaFact(name string, st *State) string {
	var lm *Lemma
	for _, x := range vc.prog.contracts.Lemmas {
		if x.Name == name {
			lm = x
		}
	}
	if lm == nil {
		panic(unsupported("unknown lemma %s", name))
	}
	var pkg *types.Package
	for _, p := range vc.prog.allPkgs {
		if p.Path() == lm.Pkg {
			pkg = p
		}
	}
	env := &Env{vc: vc, names: map[string]envEntry{}, pkg: pkg}
	var binders, hyp []string
	for _, p := range lm.Params {
		t := vc.prog.resolveType(p.Type, pkg)
		nm := "|u:" + lm.Name + ":" + p.Name + "|"
		v := Val{K: kindOf(t), T: t, S: nm}
		binders = append(binders, "("+nm+" "+sortOfType(t)+")")
		if g := vc.typeAssume(v, st.alloc); g != "true" {
			hyp = append(hyp, g)
		}
		env.names[p.Name] = envEntry{val: &v}
	}
	for _, c := range lm.Requires {
		hyp = append(hyp, vc.evalBool(c.E, env, st, st))
	}
	var goals []string
	for _, c := range lm.Ensures {
		goals = append(goals, vc.evalBool(c.E, env, st, st))
	}
	vc.usedExt["lemma "+name+" (proved separately as lemma:"+name+")"] = true
	return fmt.Sprintf("(forall (%s) (=> %s %s))", strings.Join(binders, " "), and(hyp...), and(goals...))
}

func modifiesNothing(fc *FuncContract) bool {
	for _, mc := range fc.Modifies {
		if len(mc.Mods) > 0 {
			return false
		}
	}
	return true
}

func scalarResults(sig *types.Signature) bool {
	for i := 0; i < sig.Results().Len(); i++ {
		switch kindOf(sig.Results().At(i).Type()) {
		case KInt, KBool, KStr:
		default:
			return false
		}
	}
	return true
}
