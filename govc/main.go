package main

import (
	"encoding/json"
	"flag"
	"fmt"
	"os"
	"path/filepath"
	"sort"
	"strconv"
	"strings"
	"time"

	"golang.org/x/tools/go/ssa"
)

type knownFinding struct {
	Status     string `json:"status"` // open | fixed
	Property   string `json:"property"`
	Obligation string `json:"obligation"`
	What       string `json:"what"`
	Input      string `json:"input"`
	Commit     string `json:"commit,omitempty"`
}

func main() {
	if len(os.Args) < 2 {
		fmt.Fprintln(os.Stderr, "usage: govc check|dump|list ...")
		os.Exit(2)
	}
	switch os.Args[1] {
	case "check":
		os.Exit(cmdCheck(os.Args[2:]))
	case "dump":
		os.Exit(cmdDump(os.Args[2:]))
	case "sweep":
		os.Exit(cmdSweep(os.Args[2:]))
	default:
		fmt.Fprintln(os.Stderr, "unknown command", os.Args[1])
		os.Exit(2)
	}
}

func verifDir() string {
	if d := os.Getenv("VERIF_DIR"); d != "" {
		return d
	}
	exe, err := os.Executable()
	if err == nil {
		d := filepath.Dir(filepath.Dir(exe))
		if _, err := os.Stat(filepath.Join(d, "lib")); err == nil {
			return d
		}
	}
	return "/verif"
}

// genAll generates the VCs of every function under contract.
// missingFunc turns a contract whose function no longer exists (renamed,
// removed, inlined) into an undischarged obligation of the properties the
// contract is tagged with (and of C03/C14, which cover every function): what
// the contract stated can no longer be shown.
func (P *Program) missingFunc(k string, fc *FuncContract) *Obligation {
	props := map[string]bool{"C03": true, "C14": true}
	all := append(append([]*Clause{}, fc.Requires...), fc.Ensures...)
	for _, cs := range fc.Loops {
		all = append(all, cs...)
	}
	for _, a := range fc.Asserts {
		all = append(all, a.C)
	}
	for _, c := range all {
		for _, p := range c.Props {
			props[p] = true
		}
	}
	if fc.Opts["det"] != "" {
		props["C06"] = true
	}
	var pl []string
	for p := range props {
		pl = append(pl, p)
	}
	sort.Strings(pl)
	short := k
	if i := strings.LastIndex(k, "/"); i >= 0 {
		short = k[i+1:]
	}
	if i := strings.Index(short, "."); i >= 0 {
		short = short[i+1:]
	}
	return &Obligation{Name: short + "/contract:applies", Class: "contract", Props: pl, Func: k, static: true,
		staticFail: fmt.Sprintf("the function %s named by the contract at %s:%d no longer exists (renamed, removed or inlined): its contract cannot be checked", k, fc.File, fc.Line)}
}

func genAll(P *Program, only string, wanted map[string]bool) ([]*VC, []string) {
	var vcs []*VC
	var errs []string
	var keys []string
	for k, fc := range P.contracts.Funcs {
		if fc.Extern {
			continue
		}
		keys = append(keys, k)
	}
	sort.Strings(keys)
	for _, k := range keys {
		fc := P.contracts.Funcs[k]
		if strings.Contains(k, "@") {
			// call-site specific contract: used where that caller calls it
			base := k[:strings.LastIndex(k, "@")]
			if P.funcs[base] == nil {
				P.missing = append(P.missing, P.missingFunc(k, fc))
			} else if fc.Opts["assumed"] != "" {
				P.assumed = append(P.assumed, k)
			}
			continue
		}
		fn := P.funcs[k]
		if fn == nil {
			P.missing = append(P.missing, P.missingFunc(k, fc))
			continue
		}
		if only != "" && !strings.Contains(k, only) {
			continue
		}
		if wanted != nil && !wanted[k] {
			// not in the obligation closure of the property being checked
			if fc.Opts["assumed"] != "" {
				P.assumed = append(P.assumed, k)
			}
			continue
		}
		if fc.Opts["assumed"] != "" {
			P.assumed = append(P.assumed, k)
			continue
		}
		vc := newVC(P, fn, fc)
		if err := vc.generate(); err != nil {
			// the contract no longer fits the code (e.g. a loop it annotates
			// was rewritten): reported as an undischarged obligation of that
			// function, not as a tool failure
			vc2 := newVC(P, fn, fc)
			vc2.obs = []*Obligation{{Name: fn.RelString(fn.Pkg.Pkg) + "/contract:applies", Class: "contract", Props: []string{"*"}, Func: fn.String(), vc: vc2, raw: "(check-sat)\n", errText: err.Error()}}
			vc2.contractErr = true
			vcs = append(vcs, vc2)
			continue
		}
		for _, w := range vc.warnings {
			fmt.Println("WARNING:", w)
		}
		for _, m := range vc.missing {
			props := m.Props
			if len(props) == 0 {
				props = []string{"*"}
			}
			vc.obs = append(vc.obs, &Obligation{Name: fn.RelString(fn.Pkg.Pkg) + "/" + m.Name, Class: "contract", Props: props, Func: fn.String(), vc: vc, raw: "(check-sat)\n", errText: m.Why, Clause: m.C})
		}
		vcs = append(vcs, vc)
	}
	return vcs, errs
}

// closure computes, per property, the functions whose helper obligations
// belong to it: functions with a clause tagged by the property and everything
// they call (transitively) that is under contract.
func propClosure(P *Program, prop string) (map[string]bool, map[string]bool) {
	roots := map[string]bool{}
	for k, fc := range P.contracts.Funcs {
		if fc.Extern {
			continue
		}
		tagged := false
		all := append(append([]*Clause{}, fc.Requires...), fc.Ensures...)
		for _, cs := range fc.Loops {
			all = append(all, cs...)
		}
		for _, a := range fc.Asserts {
			all = append(all, a.C)
		}
		if fc.Opts["det"] != "" && prop == "C06" {
			tagged = true
		}
		for _, c := range all {
			for _, p := range c.Props {
				if p == prop {
					tagged = true
				}
			}
		}
		if fc.Opts["props"] != "" {
			for _, p := range strings.Fields(strings.ReplaceAll(fc.Opts["props"], ",", " ")) {
				if p == prop {
					tagged = true
				}
			}
		}
		if tagged {
			roots[k] = true
		}
	}
	if prop == "C03" || prop == "C14" {
		for k, fc := range P.contracts.Funcs {
			if !fc.Extern {
				roots[k] = true
			}
		}
	}
	seen := map[string]bool{}
	var visit func(k string)
	visit = func(k string) {
		if seen[k] {
			return
		}
		seen[k] = true
		fn := P.funcs[k]
		if fn == nil {
			return
		}
		for _, b := range fn.Blocks {
			for _, ins := range b.Instrs {
				// a closure built here (e.g. a comparator handed to sort) is part
				// of what the function's proof rests on
				if mc, ok := ins.(*ssa.MakeClosure); ok {
					if cf, ok := mc.Fn.(*ssa.Function); ok && P.contracts.Funcs[P.funcKey(cf)] != nil {
						visit(P.funcKey(cf))
					}
				}
				if ci, ok := ins.(ssa.CallInstruction); ok {
					var callee *ssa.Function
					switch v := ci.Common().Value.(type) {
					case *ssa.Function:
						callee = v
					case *ssa.MakeClosure:
						callee = v.Fn.(*ssa.Function)
					default:
						callee = P.resolveFuncValue(ci.Common().Value)
					}
					if callee != nil && P.inRepo(callee) {
						ck := P.funcKey(callee)
						if fc := P.contracts.Funcs[ck]; fc != nil {
							visit(ck)
						}
					}
				}
			}
		}
	}
	for k := range roots {
		visit(k)
	}
	return seen, roots
}

func obligationInProp(ob *Obligation, prop string, closure map[string]bool, roots map[string]bool, fkey string) bool {
	for _, p := range ob.Props {
		if p == prop {
			return true
		}
	}
	if !closure[fkey] {
		return false
	}
	if ob.Class == "safe" && prop == "C17" {
		return true // "HTML rendering of any snapshot succeeds": the helpers must not panic
	}
	if ob.Class == "safe" || ob.Class == "dec" {
		return false // panic-freedom and termination are C03's (tagged above)
	}
	if ob.Class == "frame" {
		return false // frames are C14's (tagged above)
	}
	if len(ob.Props) == 0 {
		return true
	}
	for _, p := range ob.Props {
		if p == "*" {
			return true
		}
	}
	// helper obligations of functions in the closure
	if ob.Class == "inv-init" || ob.Class == "inv-pres" || ob.Class == "pre" {
		return true
	}
	// a function that is in the closure only because something calls it: the
	// caller's proof may rest on any of its postconditions
	if !roots[fkey] && ob.Class == "post" {
		return true
	}
	// panic-freedom of a caller may rest on any postcondition of any callee
	// (e.g. merge is only safe on arguments that similar() accepted): C03
	// includes them all
	if (prop == "C03" || prop == "C14") && ob.Class == "post" {
		return true
	}
	// likewise inside a property's closure: a tagged postcondition of one
	// function is proved from the postconditions - tagged or not - of the
	// functions it calls, also when those are roots of the property themselves
	if ob.Class == "post" && os.Getenv("GOVC_NARROW") == "" {
		return true
	}
	return false
}

func cmdCheck(args []string) int {
	fs := flag.NewFlagSet("check", flag.ExitOnError)
	repo := fs.String("repo", "/repo", "repository")
	prop := fs.String("prop", "", "property id")
	tier := fs.String("tier", "quick", "quick|thorough")
	evidence := fs.String("evidence", "", "evidence file")
	only := fs.String("func", "", "restrict to functions containing this text")
	solver := fs.String("solver", "", "use only this solver")
	tlimF := fs.Int("tlim", 0, "per query time limit (s)")
	verbose := fs.Bool("v", false, "verbose")
	keep := fs.String("keep", "", "keep queries in this directory")
	fs.Parse(args)
	t0 := time.Now()
	vdir := verifDir()
	seed := 0
	if s := os.Getenv("VERIF_SEED"); s != "" {
		seed, _ = strconv.Atoi(s)
	}
	P, err := loadProgram(*repo, filepath.Join(vdir, "lib"))
	if err != nil {
		fmt.Println("ERROR: cannot load:", err)
		return 2
	}
	if os.Getenv("GOVC_TIMING") != "" {
		fmt.Printf("TIMING load %.1fs\n", time.Since(t0).Seconds())
	}
	coverCalls = true
	coverQuick = *tier != "thorough"
	closure, roots := propClosure(P, *prop)
	var wanted map[string]bool
	if *prop != "" {
		wanted = closure
	}
	vcs, errs := genAll(P, *only, wanted)
	if os.Getenv("GOVC_TIMING") != "" {
		fmt.Printf("TIMING gen %.1fs\n", time.Since(t0).Seconds())
	}
	lemObs, lerrs := genLemmas(P, *prop)
	errs = append(errs, lerrs...)
	if os.Getenv("GOVC_TIMING") != "" {
		fmt.Printf("TIMING lemmas %.1fs\n", time.Since(t0).Seconds())
	}
	var obs []*Obligation
	funcsUnder := map[string]int{}
	for _, vc := range vcs {
		k := P.funcKey(vc.fn)
		for _, ob := range vc.obs {
			if *prop == "" || obligationInProp(ob, *prop, closure, roots, k) {
				obs = append(obs, ob)
				funcsUnder[vc.fn.RelString(vc.fn.Pkg.Pkg)]++
			}
		}
	}
	obs = append(obs, lemObs...)
	for _, ob := range P.missing {
		for _, p := range ob.Props {
			if (p == *prop || *prop == "") && (*only == "" || strings.Contains(ob.Func, *only)) {
				obs = append(obs, ob)
				break
			}
		}
	}
	if *only == "" {
		for _, ob := range P.patternObligations() {
			for _, p := range ob.Props {
				if p == *prop || *prop == "" {
					obs = append(obs, ob)
					break
				}
			}
		}
	}
	if *only == "" {
		for _, ob := range P.sweepObligations() {
			for _, p := range ob.Props {
				if p == *prop || *prop == "" {
					obs = append(obs, ob)
					break
				}
			}
		}
	}
	// errors in functions that matter to this property are tool errors
	var relevantErrs []string
	for _, e := range errs {
		relevantErrs = append(relevantErrs, e)
	}
	if len(relevantErrs) > 0 && *only == "" {
		for _, e := range relevantErrs {
			fmt.Println("ERROR:", e)
		}
		return 2
	}
	for _, e := range relevantErrs {
		fmt.Println("ERROR:", e)
	}
	if len(obs) == 0 {
		fmt.Println("ERROR: no obligations generated for", *prop)
		return 2
	}
	workdir := *keep
	if workdir == "" {
		workdir, err = os.MkdirTemp("", "govc-q-")
		if err != nil {
			fmt.Println("ERROR:", err)
			return 2
		}
		defer os.RemoveAll(workdir)
	} else {
		os.MkdirAll(workdir, 0o755)
	}
	tlim := 40
	if *tier == "thorough" {
		tlim = 120
	}
	if *tlimF > 0 {
		tlim = *tlimF
	}
	// known findings
	var known []knownFinding
	if data, err := os.ReadFile(filepath.Join(vdir, "known_findings.json")); err == nil {
		_ = json.Unmarshal(data, &known)
	}
	// an open finding is reported under the properties its clause is tagged
	// with; where the obligation is only part of another property's closure
	// (helper role) it is left out instead of being reported there as well
	if *prop != "" {
		var kept []*Obligation
		for _, ob := range obs {
			drop := false
			for _, k := range known {
				if k.Status == "open" && k.Obligation == ob.Name {
					tagged := false
					for _, p := range ob.Props {
						if p == *prop {
							tagged = true
						}
					}
					if !tagged {
						drop = true
					}
				}
			}
			if !drop {
				kept = append(kept, ob)
			}
		}
		obs = kept
	}
	for _, ob := range obs {
		for _, k := range known {
			if k.Status == "open" && (k.Property == *prop || k.Property == "*" || *prop == "") && k.Obligation == ob.Name {
				ob.ShortLimit = true // expected to stay undischarged
			}
		}
	}
	results := dischargeAll(obs, workdir, tlim, 8, *solver)
	discharged := 0
	bySolver := map[string]int{}
	var failed []Result
	var totalMs int64
	var samples []interface{}
	for _, r := range results {
		totalMs += r.Millis
		if r.Status == "unsat" {
			discharged++
			bySolver[r.Solver]++
			if len(samples) < 6 && r.Ob.Class != "cover" {
				samples = append(samples, map[string]interface{}{"obligation": r.Ob.Name, "solver": r.Solver, "ms": r.Millis, "smt_bytes": r.SMTBytes})
			}
		} else {
			failed = append(failed, r)
		}
		if *verbose {
			fmt.Printf("%-8s %-7s %6dms %s  [%s]\n", r.Status, r.Solver, r.Millis, r.Ob.Name, r.Ob.Pos)
		}
	}
	violations := 0
	knownHit := 0
	replayDir := filepath.Join(vdir, "replay")
	for _, r := range failed {
		isKnown := false
		for _, k := range known {
			if k.Status == "open" && (k.Property == *prop || k.Property == "*" || *prop == "") && k.Obligation == r.Ob.Name {
				fmt.Printf("KNOWN-FINDING: property=%s %s (%s; input: %s)\n", *prop, r.Ob.Name, k.What, k.Input)
				isKnown = true
				knownHit++
			}
		}
		if isKnown {
			continue
		}
		violations++
		os.MkdirAll(replayDir, 0o755)
		rp := filepath.Join(replayDir, fmt.Sprintf("%s-%s.txt", *prop, sanitize(r.Ob.Name)))
		writeReplay(rp, *prop, r, P, *repo)
		suffix := " no-failing-input-found"
		fmt.Printf("VIOLATION property=%s replay=%s obligation=%s status=%s%s\n", *prop, rp, r.Ob.Name, r.Status, suffix)
	}
	wall := time.Since(t0).Seconds()
	if *evidence != "" {
		var fl []string
		for f := range funcsUnder {
			fl = append(fl, f)
		}
		sort.Strings(fl)
		trusted := map[string]bool{}
		for _, vc := range vcs {
			if funcsUnder[vc.fn.RelString(vc.fn.Pkg.Pkg)] == 0 {
				continue
			}
			for k := range vc.usedExt {
				trusted["assumed contract: "+k] = true
			}
		}
		if len(lemObs) > 0 {
			for _, ax := range P.contracts.Axioms {
				trusted["axiom "+ax.Label+": "+ax.Text] = true
			}
		}
		for _, k := range P.assumed {
			trusted["contract assumed, not yet verified: "+k] = true
		}
		trusted["govc VC generator (unverified; guarded by cover obligations and the must-fail corpus)"] = true
		trusted["solvers z3-new 5.1.0, z3 4.8.12, cvc5 1.0.3"] = true
		trusted["Go memory safety / heap closure; mathematical integers with explicit wrap for unsigned types"] = true
		var tl []string
		for k := range trusted {
			tl = append(tl, k)
		}
		sort.Strings(tl)
		if len(samples) == 0 {
			samples = append(samples, "none discharged")
		}
		ev := map[string]interface{}{
			"property_id": *prop,
			"tier":        *tier,
			"seed":        seed,
			"level":       "proof",
			"coverage": map[string]interface{}{
				"obligations":              len(obs) - knownHit,
				"discharged":               discharged,
				"checker_cmd":              "bin/check " + *prop + " " + *tier,
				"trusted_base":             tl,
				"samples":                  samples,
				"functions_under_contract": fl,
				"discharged_by_solver":     bySolver,
				"solver_ms_total":          totalMs,
				"known_findings_hit":       knownHit,
				"undischarged":             len(failed) - knownHit,
				"explanation":              "obligations excludes the known-finding obligations listed in known_findings.json (reported as KNOWN-FINDING lines); every other obligation must be discharged",
			},
			"assumptions": tl,
			"wall_s":      wall,
			"violations":  violations,
		}
		data, _ := json.MarshalIndent(ev, "", " ")
		os.MkdirAll(filepath.Dir(*evidence), 0o755)
		os.WriteFile(*evidence, data, 0o644)
	}
	fmt.Printf("property=%s obligations=%d discharged=%d undischarged=%d known=%d functions=%d wall=%.1fs\n", *prop, len(obs), discharged, len(failed), knownHit, len(funcsUnder), wall)
	if violations > 0 {
		return 1
	}
	return 0
}

func sanitize(s string) string {
	return strings.Map(func(r rune) rune {
		if r >= 'a' && r <= 'z' || r >= 'A' && r <= 'Z' || r >= '0' && r <= '9' || r == '.' || r == '-' || r == '_' {
			return r
		}
		return '_'
	}, s)
}

func writeReplay(path, prop string, r Result, P *Program, repo string) {
	var b strings.Builder
	fmt.Fprintf(&b, "property: %s\nfailed obligation: %s\nclass: %s\nfunction: %s\nat: %s\nsolver status: %s (%s)\n", prop, r.Ob.Name, r.Ob.Class, r.Ob.Func, r.Ob.Pos, r.Status, r.Solver)
	if r.Ob.Clause != nil {
		fmt.Fprintf(&b, "clause: %s %s  (%s:%d)\n", r.Ob.Clause.Kind, r.Ob.Clause.Text, r.Ob.Clause.File, r.Ob.Clause.Line)
	}
	fmt.Fprintf(&b, "replay: no-failing-input-found (the solver gave no model that could be replayed)\n")
	if r.Ob.static {
		fmt.Fprintf(&b, "--- sweep finding ---\n%s\n", r.Output)
	} else {
		fmt.Fprintf(&b, "--- solver output ---\n%s\n--- query ---\n%s\n", r.Output, r.Ob.Query())
	}
	os.WriteFile(path, []byte(b.String()), 0o644)
}

func cmdDump(args []string) int {
	fs := flag.NewFlagSet("dump", flag.ExitOnError)
	repo := fs.String("repo", "/repo", "repository")
	only := fs.String("func", "", "function filter")
	obn := fs.String("ob", "", "obligation name filter")
	lvl := fs.Int("level", 0, "relevance slice level")
	fs.Parse(args)
	P, err := loadProgram(*repo, filepath.Join(verifDir(), "lib"))
	if err != nil {
		fmt.Println("ERROR:", err)
		return 2
	}
	vcs, errs := genAll(P, *only, nil)
	for _, e := range errs {
		fmt.Println("ERROR:", e)
	}
	for _, vc := range vcs {
		for _, ob := range vc.obs {
			if *obn != "" && !strings.Contains(ob.Name, *obn) {
				continue
			}
			fmt.Println(";;", ob.Name)
			if *obn != "" {
				fmt.Println(ob.QueryLevel(*lvl))
			}
		}
	}
	return 0
}

func init() {
	dumpLevel = 0
}

var dumpLevel int
