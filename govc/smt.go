package main

import (
	"bytes"
	"context"
	"fmt"
	"os"
	"os/exec"
	"path/filepath"
	"strings"
	"sync"
	"time"
)

// prelude is emitted at the top of every query. Addresses are an algebraic
// datatype so that injectivity and disjointness of sub-object addresses are
// built into the solver instead of being axiomatised.
const preludeDecls = `(set-option :produce-models true)
(set-logic ALL)
(declare-datatypes ((Addr 0)) (((nil) (root (rid Int)) (fld (fpar Addr) (fid Int)) (elem (epar Addr) (eidx Int)))))
(declare-datatypes ((Slice 0)) (((mk-slice (sarr Addr) (soff Int) (slen Int) (scap Int)))))
(declare-sort Str 0)
(declare-fun s_len (Str) Int)
(declare-fun s_at (Str Int) Int)
(declare-fun s_sub (Str Int Int) Str)
(declare-fun s_cat (Str Str) Str)
(declare-fun s_lt (Str Str) Bool)
(declare-fun s_empty () Str)
(declare-fun rootOf (Addr) Int)
(declare-fun idx (Slice Int) Addr)
`

const preludeAxioms = `(assert (forall ((s Slice) (k Int)) (! (= (idx s k) (elem (sarr s) (+ (soff s) k))) :pattern ((idx s k)))))
(assert (forall ((s Slice) (j Int)) (! (= (elem (sarr s) j) (idx s (- j (soff s)))) :pattern ((elem (sarr s) j)))))
(assert (= (rootOf nil) (- 1)))
(assert (forall ((i Int)) (! (= (rootOf (root i)) i) :pattern ((root i)))))
(assert (forall ((p Addr) (f Int)) (! (= (rootOf (fld p f)) (rootOf p)) :pattern ((fld p f)))))
(assert (forall ((p Addr) (i Int)) (! (= (rootOf (elem p i)) (rootOf p)) :pattern ((elem p i)))))
(assert (= (s_len s_empty) 0))
(assert (forall ((s Str)) (! (>= (s_len s) 0) :pattern ((s_len s)))))
(assert (forall ((s Str)) (! (=> (= (s_len s) 0) (= s s_empty)) :pattern ((s_len s)))))
(assert (forall ((s Str) (i Int) (j Int)) (! (=> (and (<= 0 i) (<= i j) (<= j (s_len s))) (= (s_len (s_sub s i j)) (- j i))) :pattern ((s_sub s i j)))))
(assert (forall ((s Str) (i Int) (j Int) (k Int)) (! (=> (and (<= 0 i) (<= i j) (<= j (s_len s)) (<= 0 k) (< k (- j i))) (= (s_at (s_sub s i j) k) (s_at s (+ i k)))) :pattern ((s_at (s_sub s i j) k)))))
(assert (forall ((s Str)) (! (= (s_sub s 0 (s_len s)) s) :pattern ((s_sub s 0 (s_len s))))))
(assert (forall ((a Str) (b Str)) (! (= (s_len (s_cat a b)) (+ (s_len a) (s_len b))) :pattern ((s_cat a b)))))
(assert (forall ((a Str) (b Str) (k Int)) (! (=> (and (<= 0 k) (< k (+ (s_len a) (s_len b)))) (= (s_at (s_cat a b) k) (ite (< k (s_len a)) (s_at a k) (s_at b (- k (s_len a)))))) :pattern ((s_at (s_cat a b) k)))))
(assert (forall ((a Str) (b Str)) (! (and (= (s_sub (s_cat a b) 0 (s_len a)) a) (= (s_sub (s_cat a b) (s_len a) (+ (s_len a) (s_len b))) b)) :pattern ((s_cat a b)))))
(assert (forall ((s Str) (i Int) (j Int) (k Int) (l Int)) (! (=> (and (<= 0 i) (<= i j) (<= j (s_len s)) (<= 0 k) (<= k l) (<= l (- j i))) (= (s_sub (s_sub s i j) k l) (s_sub s (+ i k) (+ i l)))) :pattern ((s_sub (s_sub s i j) k l)))))
(assert (forall ((a Str)) (! (not (s_lt a a)) :pattern ((s_lt a a)))))
(assert (forall ((a Str) (b Str)) (! (=> (s_lt a b) (not (s_lt b a))) :pattern ((s_lt a b)))))
(assert (forall ((a Str) (b Str)) (! (or (= a b) (s_lt a b) (s_lt b a)) :pattern ((s_lt a b)))))
(assert (forall ((a Str) (b Str) (c Str)) (! (=> (and (s_lt a b) (s_lt b c)) (s_lt a c)) :pattern ((s_lt a b) (s_lt b c)))))
`

const prelude = preludeDecls + preludeAxioms

// Result of one obligation.
type Result struct {
	Ob       *Obligation
	Status   string // unsat | sat | unknown | timeout | error
	Solver   string
	Millis   int64
	Output   string
	SMTBytes int
}

type solverSpec struct {
	name string
	argv func(file string, tlim int) []string
}

var solvers = []solverSpec{
	{"z3-new", func(f string, t int) []string { return []string{"z3-new", fmt.Sprintf("-T:%d", t), f} }},
	{"z3", func(f string, t int) []string { return []string{"z3", fmt.Sprintf("-T:%d", t), f} }},
	{"cvc5", func(f string, t int) []string {
		return []string{"cvc5", fmt.Sprintf("--tlimit=%d", t*1000), "--incremental", f}
	}},
}

// runPortfolio races the solvers on one query; first unsat (or sat) wins.
func runPortfolio(query string, workdir string, id int, tlim int, only string) (status, solver, output string, ms int64) {
	file := filepath.Join(workdir, fmt.Sprintf("q%05d.smt2", id))
	if err := os.WriteFile(file, []byte(query), 0o644); err != nil {
		return "error", "", err.Error(), 0
	}
	type ans struct {
		status, solver, out string
		ms                  int64
	}
	ctx, cancel := context.WithCancel(context.Background())
	defer cancel()
	ch := make(chan ans, len(solvers))
	n := 0
	for _, s := range solvers {
		if only != "" && only != s.name {
			continue
		}
		n++
		go func(s solverSpec) {
			t0 := time.Now()
			argv := s.argv(file, tlim)
			cmd := exec.CommandContext(ctx, argv[0], argv[1:]...)
			var buf bytes.Buffer
			cmd.Stdout = &buf
			cmd.Stderr = &buf
			_ = cmd.Run()
			out := buf.String()
			first := strings.TrimSpace(strings.SplitN(out, "\n", 2)[0])
			st := "unknown"
			switch first {
			case "unsat":
				st = "unsat"
			case "sat":
				st = "sat"
			case "timeout":
				st = "timeout"
			case "unknown":
				st = "unknown"
			default:
				if strings.Contains(out, "timeout") || strings.Contains(out, "interrupted") {
					st = "timeout"
				} else if ctx.Err() != nil {
					st = "cancelled"
				} else {
					st = "error"
				}
			}
			ch <- ans{st, s.name, out, time.Since(t0).Milliseconds()}
		}(s)
	}
	var best ans
	best.status = "unknown"
	for i := 0; i < n; i++ {
		a := <-ch
		if a.status == "unsat" || a.status == "sat" {
			cancel()
			return a.status, a.solver, a.out, a.ms
		}
		if a.status == "error" && best.status != "error" {
			best = a
		} else if best.solver == "" {
			best = a
		}
	}
	return best.status, best.solver, best.out, best.ms
}

// dischargeAll runs all obligations with bounded parallelism.
func dischargeAll(obs []*Obligation, workdir string, tlim int, par int, only string) []Result {
	res := make([]Result, len(obs))
	sem := make(chan struct{}, par)
	var wg sync.WaitGroup
	for i, ob := range obs {
		wg.Add(1)
		sem <- struct{}{}
		go func(i int, ob *Obligation) {
			defer wg.Done()
			defer func() { <-sem }()
			if ob.errText != "" {
				res[i] = Result{Ob: ob, Status: "error", Solver: "govc", Output: "the contract of this function no longer applies to its code: " + ob.errText}
				return
			}
			if ob.static {
				if ob.staticFail == "" {
					res[i] = Result{Ob: ob, Status: "unsat", Solver: "sweep"}
				} else {
					res[i] = Result{Ob: ob, Status: "refuted", Solver: "sweep", Output: ob.staticFail}
				}
				return
			}
			q := ob.Query()
			tl, on := tlim, only
			// relevance slices first: smaller contexts prove most
			// obligations quickly; the full query is the fallback
			if !ob.ExpectSat && ob.raw == "" && !ob.ShortLimit && os.Getenv("GOVC_NOSLICE") == "" {
				if trySlices(ob, q, workdir, i, 4, only, res) {
					return
				}
				// full context, then (last resort, for slices that need more
				// than the short limit on a loaded machine) the slices again
				st, sv, out, ms := runPortfolio(q, workdir, i, tl, on)
				if st == "unsat" {
					res[i] = Result{Ob: ob, Status: st, Solver: sv, Millis: ms, Output: out, SMTBytes: len(q)}
					return
				}
				if trySlices(ob, q, workdir, i, 15, only, res) {
					return
				}
				res[i] = Result{Ob: ob, Status: st, Solver: sv, Millis: ms, Output: out, SMTBytes: len(q)}
				return
			}
			if ob.ShortLimit {
				tl = 3
			}
			if ob.ExpectSat {
				tl = 3
				if ob.pairBefore != nil && coverQuick {
					tl = 1
				}
				if on == "" {
					on = "z3-new"
				}
			}
			st, sv, out, ms := runPortfolio(q, workdir, i, tl, on)
			if ob.ExpectSat && ob.pairBefore != nil && st == "unsat" {
				// unreachable after the assumed contract: only a finding when
				// the point was reachable before it
				st0, _, _, _ := runPortfolio(ob.pairBefore.Query(), workdir, i*10+7, tl, on)
				if st0 == "unsat" {
					res[i] = Result{Ob: ob, Status: "unsat", Solver: sv + "/dead-code", Millis: ms, SMTBytes: len(q)}
					return
				}
				res[i] = Result{Ob: ob, Status: "sat", Solver: sv, Millis: ms, Output: "the assumed contract applied at this call contradicts what is known before it (vacuous proofs after this point)", SMTBytes: len(q)}
				return
			}
			if ob.ExpectSat {
				// cover obligations guard against vacuity: the assumptions
				// must not be refutable. With quantified axioms the solvers
				// rarely answer sat, so anything but unsat passes.
				if st == "unsat" {
					st = "sat"
					out = "assumptions are contradictory (vacuous proof)"
				} else {
					st = "unsat"
				}
			}
			res[i] = Result{Ob: ob, Status: st, Solver: sv, Millis: ms, Output: out, SMTBytes: len(q)}
		}(i, ob)
	}
	wg.Wait()
	return res
}

// trySlices tries the relevance slices of an obligation (smaller contexts,
// always sound to use) and records the result when one of them is proved.
func trySlices(ob *Obligation, q, workdir string, i, limit int, only string, res []Result) bool {
	for lvl := 1; lvl <= 2; lvl++ {
		qs := ob.QueryLevel(lvl)
		if len(qs) == len(q) {
			continue
		}
		st, sv, out, ms := runPortfolio(qs, workdir, i*10+lvl, limit, only)
		if st == "unsat" {
			res[i] = Result{Ob: ob, Status: st, Solver: sv + fmt.Sprintf("/slice%d", lvl), Millis: ms, Output: out, SMTBytes: len(qs)}
			return true
		}
	}
	return false
}

// small helpers to build s-expressions
func sx(op string, args ...string) string {
	if len(args) == 0 {
		return op
	}
	return "(" + op + " " + strings.Join(args, " ") + ")"
}
func and(args ...string) string {
	var a []string
	for _, x := range args {
		if x == "true" {
			continue
		}
		if x == "false" {
			return "false"
		}
		a = append(a, x)
	}
	if len(a) == 0 {
		return "true"
	}
	if len(a) == 1 {
		return a[0]
	}
	return sx("and", a...)
}
func or(args ...string) string {
	var a []string
	for _, x := range args {
		if x == "false" {
			continue
		}
		if x == "true" {
			return "true"
		}
		a = append(a, x)
	}
	if len(a) == 0 {
		return "false"
	}
	if len(a) == 1 {
		return a[0]
	}
	return sx("or", a...)
}
func not(a string) string {
	if a == "true" {
		return "false"
	}
	if a == "false" {
		return "true"
	}
	return sx("not", a)
}
func implies(a, b string) string {
	if a == "true" {
		return b
	}
	if a == "false" || b == "true" {
		return "true"
	}
	return sx("=>", a, b)
}
func eq(a, b string) string {
	if a == b {
		return "true"
	}
	return sx("=", a, b)
}
func ite(c, a, b string) string {
	if c == "true" {
		return a
	}
	if c == "false" {
		return b
	}
	if a == b {
		return a
	}
	return sx("ite", c, a, b)
}
func num(n int64) string {
	if n < 0 {
		return fmt.Sprintf("(- %d)", -n)
	}
	return fmt.Sprintf("%d", n)
}
func unum(n uint64) string { return fmt.Sprintf("%d", n) }
