package main

import (
	"fmt"
	"go/types"
	"strings"

	"golang.org/x/tools/go/ssa"
)

// Function-local ghost variables ("gvar") live in State.pseudo. They are
// updated by "update <site>: ..." clauses, which name program points
// structurally (n-th store to a field, n-th map update, n-th call of a
// callee) and never add executable code.

// localType finds a named type declared inside the function (or in the
// package) by name.
func (vc *VC) localType(name string) types.Type {
	star := 0
	for strings.HasPrefix(name, "*") {
		star++
		name = name[1:]
	}
	var found types.Type
	var pkg *types.Package
	if vc.fn != nil {
		pkg = vc.fn.Pkg.Pkg
	}
	func() {
		defer func() { recover() }()
		found = vc.prog.resolveType(name, pkg)
	}()
	if found == nil && vc.fn != nil {
		seen := map[types.Type]bool{}
		var visit func(t types.Type)
		visit = func(t types.Type) {
			if t == nil || seen[t] || found != nil {
				return
			}
			seen[t] = true
			switch u := t.(type) {
			case *types.Named:
				if u.Obj().Name() == name {
					found = u
					return
				}
				visit(u.Underlying())
			case *types.Pointer:
				visit(u.Elem())
			case *types.Slice:
				visit(u.Elem())
			case *types.Map:
				visit(u.Key())
				visit(u.Elem())
			case *types.Struct:
				for i := 0; i < u.NumFields(); i++ {
					visit(u.Field(i).Type())
				}
			}
		}
		for _, b := range vc.fn.Blocks {
			for _, ins := range b.Instrs {
				if v, ok := ins.(ssa.Value); ok {
					visit(v.Type())
				}
			}
		}
	}
	if found == nil {
		panic(unsupported("cannot resolve ghost type %q", name))
	}
	for i := 0; i < star; i++ {
		found = types.NewPointer(found)
	}
	return found
}

// parseGT parses "[K]V" ghost array types.
func (vc *VC) parseGT(s string) (*GT, types.Type) {
	if strings.HasPrefix(s, "[") {
		d := 0
		for i := 0; i < len(s); i++ {
			switch s[i] {
			case '[':
				d++
			case ']':
				d--
				if d == 0 {
					g := &GT{Key: vc.localType(s[1:i])}
					eg, et := vc.parseGT(s[i+1:])
					g.ElemG, g.ElemT = eg, et
					return g, nil
				}
			}
		}
		panic(unsupported("bad ghost type %q", s))
	}
	return nil, vc.localType(s)
}

func (vc *VC) initGhosts(st *State) {
	if vc.fc == nil {
		return
	}
	vc.ghostT = map[string]*GT{}
	vc.ghostScalar = map[string]types.Type{}
	for _, d := range vc.fc.GVars {
		g, t := vc.parseGT(d.Type)
		var srt string
		if g != nil {
			vc.ghostT[d.Name] = g
			srt = g.sort()
		} else {
			vc.ghostScalar[d.Name] = t
			srt = sortOfType(t)
		}
		vc.compSorts["pseudo:"+d.Name] = srt
		switch d.Init {
		case "":
			st.pseudo[d.Name] = vc.fresh("g_"+d.Name, srt)
		case "zero":
			if g != nil {
				panic(unsupported("'= zero' needs a scalar ghost variable"))
			}
			st.pseudo[d.Name] = vc.zero(t).S
		case "empty":
			if g == nil || g.ElemG != nil || kindOf(g.ElemT) != KBool {
				panic(unsupported("'= empty' needs a [K]bool ghost variable"))
			}
			st.pseudo[d.Name] = "((as const " + srt + ") false)"
		default:
			e, err := parseExpr(d.Init)
			if err != nil {
				panic(unsupported("ghost init: %v", err))
			}
			st.pseudo[d.Name] = vc.evalVal(e, vc.contractEnv(nil), st, st).S
		}
	}
}

// ghostVal exposes a ghost variable to contract expressions.
func (vc *VC) ghostVal(name string, st *State) (Val, bool) {
	if vc.ghostT == nil {
		return Val{}, false
	}
	term, ok := st.pseudo[name]
	if !ok {
		return Val{}, false
	}
	if g, ok := vc.ghostT[name]; ok {
		return Val{K: KArr, S: term, Sort: g.sort(), GT: g}, true
	}
	if t, ok := vc.ghostScalar[name]; ok {
		return Val{K: kindOf(t), T: t, S: term}, true
	}
	return Val{}, false
}

// siteKey names the program point after an instruction, or "".
func (vc *VC) siteKeys(ins ssa.Instruction) []string {
	switch x := ins.(type) {
	case *ssa.Store:
		if fa, ok := x.Addr.(*ssa.FieldAddr); ok {
			stt := fa.X.Type().Underlying().(*types.Pointer).Elem()
			name := typeName(stt)
			if i := strings.LastIndex(name, "."); i >= 0 {
				name = name[i+1:]
			}
			return []string{"after-store " + name + "." + stt.Underlying().(*types.Struct).Field(fa.Field).Name()}
		}
	case *ssa.MapUpdate:
		return []string{"after-mapupdate"}
	case *ssa.Call:
		c := x.Common()
		if c.IsInvoke() {
			return []string{"after-call " + c.Method.Name()}
		}
		switch f := c.Value.(type) {
		case *ssa.Function:
			short := f.Name()
			if f.Pkg != nil {
				return []string{"after-call " + f.Pkg.Pkg.Name() + "." + short, "after-call " + short}
			}
			return []string{"after-call " + short}
		case *ssa.Builtin:
			return []string{"after-call " + f.Name()}
		}
	}
	return nil
}

// planUpdates assigns update clauses to instructions (ordinal = source order).
func (vc *VC) planUpdates() {
	vc.updatesAt = map[ssa.Instruction][]*UpdateClause{}
	vc.assertsAt = map[ssa.Instruction][]*AssertClause{}
	if vc.fc == nil || len(vc.fc.Updates)+len(vc.fc.Asserts) == 0 {
		return
	}
	wantA := map[string][]*AssertClause{}
	for _, a := range vc.fc.Asserts {
		site := a.Site
		if !strings.Contains(site, "#") {
			site += "#1"
		}
		wantA[site] = append(wantA[site], a)
	}
	want := map[string][]*UpdateClause{}
	for _, u := range vc.fc.Updates {
		site := u.Site
		if !strings.Contains(site, "#") {
			site += "#1"
		}
		want[site] = append(want[site], u)
	}
	counts := map[string]int{}
	used := map[string]bool{}
	for _, b := range vc.fn.Blocks {
		for _, ins := range b.Instrs {
			for _, k := range vc.siteKeys(ins) {
				counts[k]++
				full := fmt.Sprintf("%s#%d", k, counts[k])
				if us, ok := want[full]; ok {
					vc.updatesAt[ins] = append(vc.updatesAt[ins], us...)
					used[full] = true
				}
				if as, ok := wantA[full]; ok {
					vc.assertsAt[ins] = append(vc.assertsAt[ins], as...)
					used["assert "+full] = true
				}
			}
		}
	}
	for site, as := range wantA {
		if !used["assert "+site] {
			for _, a := range as {
				vc.missing = append(vc.missing, missingClause{Name: "post:" + a.C.Label + "@" + strings.ReplaceAll(a.Site, " ", "_"), Props: a.C.Props, Why: fmt.Sprintf("the program point %q named by assert [%s] no longer exists", a.Site, a.C.Label), C: a.C})
			}
		}
	}
	for site := range want {
		if !used[site] {
			// the program point named by the contract no longer exists: the
			// ghost update is skipped, and the obligations that depend on it
			// fail on their own
			vc.warnings = append(vc.warnings, fmt.Sprintf("update site %q does not exist in %s; ghost update skipped", site, vc.fn))
		}
	}
}

// runAsserts proves intermediate assertions at their program point and then
// makes them available (labelled) to later proofs.
func (vc *VC) runAsserts(ins ssa.Instruction, st *State) {
	as := vc.assertsAt[ins]
	if len(as) == 0 {
		return
	}
	env := vc.localEnv(ins.Block(), vc.contractEnv(nil))
	vc.bindCallResults(ins, env)
	for _, a := range as {
		goal := vc.evalBool(a.C.E, env, st, vc.entry)
		name := a.C.Label
		if name == "" {
			name = "assert"
		}
		vc.obligeState = st
		vc.oblige("post", name+"@"+strings.ReplaceAll(a.Site, " ", "_"), a.C.Props, goal, a.C)
		vc.obligeState = nil
		vc.assumeL(goal, a.C.Label)
	}
}

func (vc *VC) runUpdates(ins ssa.Instruction, st *State) {
	defer vc.runAsserts(ins, st)
	us := vc.updatesAt[ins]
	if len(us) == 0 {
		return
	}
	env := vc.localEnv(ins.Block(), vc.contractEnv(nil))
	vc.bindCallResults(ins, env)
	for _, u := range us {
		for _, a := range u.Assigns {
			vc.ghostAssign(a, env, st)
		}
	}
}

// bindCallResults exposes the results of the call just made as ret0, ret1, ...
// and its ghost results by name.
func (vc *VC) bindCallResults(ins ssa.Instruction, env *Env) {
	if call, ok := ins.(*ssa.Call); ok {
		// the arguments of the call just made: arg0, arg1, ... (receiver first)
		for i, a := range call.Call.Args {
			if av, ok := vc.tryVal(a); ok {
				v := av
				env.names[fmt.Sprintf("arg%d", i)] = envEntry{val: &v}
			}
		}
		if rv, ok := vc.regs[call]; ok {
			if rv.K == KTuple {
				for i := range rv.Fs {
					f := rv.Fs[i]
					env.names[fmt.Sprintf("ret%d", i)] = envEntry{val: &f}
				}
			} else {
				r0 := rv
				env.names["ret0"] = envEntry{val: &r0}
			}
		}
	}
	// ghost results of the call just made
	for n, v := range vc.lastGhostResults {
		v := v
		env.names[n] = envEntry{val: &v}
	}
}

func (vc *VC) ghostAssign(a Assign, env *Env, st *State) {
	// collect name and index path
	var idx []Expr
	lhs := a.LHS
	for {
		if ix, ok := lhs.(*EIndex); ok {
			idx = append([]Expr{ix.I}, idx...)
			lhs = ix.X
			continue
		}
		break
	}
	id, ok := lhs.(*EIdent)
	if !ok {
		panic(unsupported("ghost assignment target"))
	}
	cur, ok := st.pseudo[id.Name]
	if !ok {
		panic(unsupported("unknown ghost variable %s", id.Name))
	}
	srt := vc.pseudoSort(id.Name)
	var ivals []string
	for _, e := range idx {
		ivals = append(ivals, vc.evalVal(e, env, st, vc.entry).S)
	}
	// build nested store of value v at the index path
	var build func(arr string, k int, v string) string
	build = func(arr string, k int, v string) string {
		if k == len(ivals) {
			return v
		}
		return sx("store", arr, ivals[k], build(sx("select", arr, ivals[k]), k+1, v))
	}
	if a.Lambda != "" {
		g := vc.ghostT[id.Name]
		for range idx {
			if g == nil || g.ElemG == nil {
				panic(unsupported("lambda assignment below the nesting of ghost %s", id.Name))
			}
			g = g.ElemG
		}
		ne := env.child()
		bv := Val{K: kindOf(g.Key), T: g.Key, S: "|q:" + a.Lambda + "|"}
		ne.names[a.Lambda] = envEntry{val: &bv}
		body := vc.evalVal(a.RHS, ne, st, vc.entry)
		na := vc.fresh("g_"+id.Name+"_lam", g.sort())
		vc.local(fmt.Sprintf("(forall ((%s %s)) (! (= (select %s %s) %s) :pattern ((select %s %s))))", bv.S, sortOfType(g.Key), na, bv.S, body.S, na, bv.S))
		nc := vc.fresh("g_"+id.Name, srt)
		vc.define(nc, build(cur, 0, na))
		st.pseudo[id.Name] = nc
		return
	}
	rhs := vc.evalVal(a.RHS, env, st, vc.entry)
	nc := vc.fresh("g_"+id.Name, srt)
	vc.define(nc, build(cur, 0, rhs.S))
	st.pseudo[id.Name] = nc
}

// tryVal is val() for contexts where an operand may not be representable.
func (vc *VC) tryVal(v ssa.Value) (r Val, ok bool) {
	defer func() {
		if e := recover(); e != nil {
			ok = false
		}
	}()
	return vc.val(v), true
}
