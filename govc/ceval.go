package main

import (
	"fmt"
	"go/constant"
	"go/types"
	"math/big"
	"strings"

	"golang.org/x/tools/go/ssa"
)

type envEntry struct {
	val  *Val
	lazy func(*State) Val
}

type Env struct {
	vc     *VC
	names  map[string]envEntry
	parent *Env
	pkg    *types.Package
}

func (e *Env) lookup(name string, st *State) (Val, bool) {
	for x := e; x != nil; x = x.parent {
		if ent, ok := x.names[name]; ok {
			if ent.val != nil {
				return *ent.val, true
			}
			return ent.lazy(st), true
		}
	}
	return Val{}, false
}

func (e *Env) child() *Env {
	return &Env{vc: e.vc, names: map[string]envEntry{}, parent: e, pkg: e.pkg}
}

// contractEnv: parameters (entry values), free variables and results.
func (vc *VC) contractEnv(results []Val) *Env {
	env := &Env{vc: vc, names: map[string]envEntry{}, pkg: vc.fn.Pkg.Pkg}
	for n, v := range vc.params {
		v := v
		env.names[n] = envEntry{val: &v}
	}
	for _, fv := range vc.fn.FreeVars {
		b := vc.regs[fv]
		pt := fv.Type().(*types.Pointer).Elem()
		env.names[fv.Name()] = envEntry{lazy: func(s *State) Val { return vc.derefPtr(b, pt, s) }}
	}
	if vc.closureParam != nil {
		for j, fv := range vc.closureParam.Fn.FreeVars {
			if j < len(vc.closureParam.Fs) {
				b := vc.closureParam.Fs[j]
				pt := fv.Type().(*types.Pointer).Elem()
				env.names[fv.Name()] = envEntry{lazy: func(s *State) Val { return vc.derefPtr(b, pt, s) }}
			}
		}
	}
	if results != nil {
		rn := resultNames(vc.fn.Signature, nil)
		for i, r := range results {
			v := r
			env.names[rn[i]] = envEntry{val: &v}
			env.names[fmt.Sprintf("result%d", i)] = envEntry{val: &v}
			if len(results) == 1 {
				env.names["result"] = envEntry{val: &v}
			}
		}
	}
	return env
}

// localEnv exposes the local variables visible at block b (by source name).
func (vc *VC) localEnv(b *ssa.BasicBlock, parent *Env) *Env {
	env := &Env{vc: vc, names: map[string]envEntry{}, parent: parent, pkg: vc.fn.Pkg.Pkg}
	best := map[string]*ssa.Alloc{}
	rank := map[string]int{}
	for _, blk := range vc.fn.Blocks {
		if !(blk == b || blk.Dominates(b)) {
			continue
		}
		for i, ins := range blk.Instrs {
			a, ok := ins.(*ssa.Alloc)
			if !ok || a.Comment == "" {
				continue
			}
			r := vc.domDepth(blk)*100000 + i
			if old, ok := best[a.Comment]; !ok || r > rank[a.Comment] {
				_ = old
				best[a.Comment] = a
				rank[a.Comment] = r
			}
		}
	}
	// every dominating local is also reachable as name#k (k-th local of that
	// name in the function), which is how an inner loop names the outer index
	ord := map[string]int{}
	byOrd := map[string]*ssa.Alloc{}
	for _, blk := range vc.fn.Blocks {
		for _, ins := range blk.Instrs {
			if a, ok := ins.(*ssa.Alloc); ok && a.Comment != "" {
				ord[a.Comment]++
				if blk == b || blk.Dominates(b) {
					byOrd[fmt.Sprintf("%s#%d", a.Comment, ord[a.Comment])] = a
				}
			}
		}
	}
	for n, a := range byOrd {
		best[n] = a
	}
	for name, a := range best {
		a := a
		et := a.Type().(*types.Pointer).Elem()
		env.names[name] = envEntry{lazy: func(s *State) Val {
			if vc.isCell(a) {
				if v, ok := s.cells[a]; ok {
					return v
				}
				if pv, ok := vc.params[a.Comment]; ok {
					return pv // entry value (old state)
				}
				panic(unsupported("local %s not initialised at this point", a.Comment))
			}
			p, ok := vc.regs[a]
			if !ok {
				panic(unsupported("local %s not allocated at this point", a.Comment))
			}
			if isScalarType(et) {
				return vc.loadAt(s, et, p.S, p.Heap)
			}
			// composite local: expose as pointer (auto-dereferenced by selectors)
			return Val{K: KPtr, T: a.Type(), S: p.S}
		}}
	}
	// iterator ghost state: visited sets
	return env
}

func (vc *VC) domDepth(b *ssa.BasicBlock) int {
	d := 0
	for x := b.Idom(); x != nil; x = x.Idom() {
		d++
	}
	return d
}

func (vc *VC) loopEnv(li *loopInfo) *Env {
	env := vc.localEnv(li.header, vc.contractEnv(nil))
	// parameters are mutable cells: the local lookup above already shadows
	// the entry values with the current cell contents.
	// visited set of a map range driving this loop
	for _, ins := range li.header.Instrs {
		if nx, ok := ins.(*ssa.Next); ok {
			if rg, ok := nx.Iter.(*ssa.Range); ok {
				rg := rg
				env.names["visited"] = envEntry{lazy: func(s *State) Val {
					it := vc.regs[rg].Iter
					return Val{K: KArr, S: s.pseudo[it.visited], Sort: vc.pseudoSort(it.visited)}
				}}
			}
		}
	}
	return env
}

func (vc *VC) evalBool(e Expr, env *Env, st, old *State) string {
	v := vc.evalVal(e, env, st, old)
	if v.K != KBool {
		panic(unsupported("contract expression is not boolean: %#v", e))
	}
	return v.S
}

var tInt = types.Typ[types.Int]
var tBool = types.Typ[types.Bool]

func (vc *VC) evalVal(e Expr, env *Env, st, old *State) Val {
	switch x := e.(type) {
	case *EInt:
		n := new(big.Int)
		if _, ok := n.SetString(x.V, 0); !ok {
			panic(unsupported("bad integer literal %s", x.V))
		}
		return Val{K: KInt, T: types.Typ[types.UntypedInt], S: n.String()}
	case *EBool:
		if x.V {
			return Val{K: KBool, T: tBool, S: "true"}
		}
		return Val{K: KBool, T: tBool, S: "false"}
	case *EStr:
		return Val{K: KStr, T: types.Typ[types.String], S: vc.strLit(x.V)}
	case *EChar:
		return Val{K: KInt, T: types.Typ[types.UntypedRune], S: num(x.V)}
	case *ENil:
		return Val{K: KPtr, T: types.Typ[types.UntypedNil], S: "nil"}
	case *EIdent:
		return vc.evalIdent(x.Name, env, st)
	case *EOld:
		return vc.evalVal(x.X, env, old, old)
	case *ECond:
		c := vc.evalBool(x.C, env, st, old)
		a := vc.evalVal(x.A, env, st, old)
		b := vc.evalVal(x.B, env, st, old)
		r := a
		r.S = ite(c, a.S, b.S)
		return r
	case *EUnary:
		v := vc.evalVal(x.X, env, st, old)
		if x.Op == "!" {
			return Val{K: KBool, T: tBool, S: not(v.S)}
		}
		return Val{K: KInt, T: v.T, S: sx("-", v.S)}
	case *EBinary:
		return vc.evalBinary(x, env, st, old)
	case *EQuant:
		ne := env.child()
		var binders []string
		var guards []string
		for _, qv := range x.Vars {
			t := vc.quantType(qv.Type, env.pkg)
			srt := sortOfType(t)
			name := "|q:" + qv.Name + "|"
			v := Val{K: kindOf(t), T: t, S: name}
			ne.names[qv.Name] = envEntry{val: &v}
			binders = append(binders, "("+name+" "+srt+")")
			_ = guards
		}
		body := vc.evalBool(x.Body, ne, st, old)
		q := "forall"
		if !x.Forall {
			q = "exists"
		}
		return Val{K: KBool, T: tBool, S: "(" + q + " (" + strings.Join(binders, " ") + ") " + body + ")"}
	case *ESel:
		return vc.evalSel(x, env, st, old)
	case *EIndex:
		base := vc.evalVal(x.X, env, st, old)
		idx := vc.evalVal(x.I, env, st, old)
		return vc.indexVal(base, idx, st)
	case *ESlice:
		base := vc.evalVal(x.X, env, st, old)
		lo := "0"
		if x.Lo != nil {
			lo = vc.evalVal(x.Lo, env, st, old).S
		}
		switch base.K {
		case KStr:
			hi := sx("s_len", base.S)
			if x.Hi != nil {
				hi = vc.evalVal(x.Hi, env, st, old).S
			}
			return Val{K: KStr, T: base.T, S: sx("s_sub", base.S, lo, hi)}
		case KSlice:
			hi := sx("slen", base.S)
			if x.Hi != nil {
				hi = vc.evalVal(x.Hi, env, st, old).S
			}
			return Val{K: KSlice, T: base.T, S: sx("mk-slice", sx("sarr", base.S), sx("+", sx("soff", base.S), lo), sx("-", hi, lo), sx("-", sx("scap", base.S), lo))}
		case KStruct:
			if arr, ok := base.T.Underlying().(*types.Array); ok {
				hi := num(arr.Len())
				if x.Hi != nil {
					hi = vc.evalVal(x.Hi, env, st, old).S
				}
				return Val{K: KSlice, T: types.NewSlice(arr.Elem()), S: sx("mk-slice", base.S, lo, sx("-", hi, lo), sx("-", num(arr.Len()), lo))}
			}
		}
		panic(unsupported("slice expression on %v", base.T))
	case *ECall:
		return vc.evalCall(x, env, st, old)
	case *EDeref:
		p := vc.evalVal(x.X, env, st, old)
		pt, ok := p.T.Underlying().(*types.Pointer)
		if !ok {
			panic(unsupported("deref of non-pointer"))
		}
		return vc.derefPtr(p, pt.Elem(), st)
	case *EAddr:
		return vc.evalAddr(x.X, env, st, old)
	}
	panic(unsupported("contract expression %T", e))
}

func (vc *VC) evalIdent(name string, env *Env, st *State) Val {
	if v, ok := env.lookup(name, st); ok {
		return v
	}
	if v, ok := vc.ghostVal(name, st); ok {
		return v
	}
	// package-level objects
	if env.pkg != nil {
		if obj := env.pkg.Scope().Lookup(name); obj != nil {
			return vc.objVal(obj, st)
		}
	}
	if sf, ok := vc.prog.contracts.Specs[name]; ok && len(sf.Params) == 0 {
		return vc.evalCall(&ECall{Fn: name}, env, st, st)
	}
	panic(unsupported("unknown identifier %q in contract of %s", name, vc.where()))
}

func (vc *VC) objVal(obj types.Object, st *State) Val {
	switch o := obj.(type) {
	case *types.Const:
		t := o.Type()
		switch kindOf(t) {
		case KInt:
			iv := constant.ToInt(o.Val())
			s := iv.ExactString()
			if strings.HasPrefix(s, "-") {
				s = "(- " + s[1:] + ")"
			}
			return Val{K: KInt, T: t, S: s}
		case KBool:
			if constant.BoolVal(o.Val()) {
				return Val{K: KBool, T: t, S: "true"}
			}
			return Val{K: KBool, T: t, S: "false"}
		case KStr:
			return Val{K: KStr, T: t, S: vc.strLit(constant.StringVal(o.Val()))}
		}
	case *types.Var:
		pkg := vc.prog.ssaProg.Package(o.Pkg())
		if pkg != nil {
			if g, ok := pkg.Members[o.Name()].(*ssa.Global); ok {
				return vc.loadGlobal(o.Pkg().Name()+"."+o.Name(), o.Type(), g, st)
			}
		}
	}
	panic(unsupported("package-level object %s not usable in contracts", obj.Name()))
}

func (vc *VC) evalSel(x *ESel, env *Env, st, old *State) Val {
	// qualified identifier?
	if id, ok := x.X.(*EIdent); ok {
		if _, isLocal := env.lookup(id.Name, st); !isLocal && env.pkg != nil {
			for _, imp := range env.pkg.Imports() {
				if imp.Name() == id.Name {
					if obj := imp.Scope().Lookup(x.Name); obj != nil {
						return vc.objVal(obj, st)
					}
				}
			}
			if env.pkg.Name() == id.Name {
				if obj := env.pkg.Scope().Lookup(x.Name); obj != nil {
					return vc.objVal(obj, st)
				}
			}
		}
	}
	base := vc.evalVal(x.X, env, st, old)
	return vc.selectField(base, x.Name, st)
}

// selectField implements x.f with automatic dereference and promotion
// through embedded fields.
func (vc *VC) selectField(base Val, name string, st *State) Val {
	obj, index, _ := types.LookupFieldOrMethod(base.T, true, nil, name)
	if obj == nil && vc.fn != nil {
		obj, index, _ = types.LookupFieldOrMethod(base.T, true, vc.fn.Pkg.Pkg, name)
	}
	if obj == nil {
		// try all packages for unexported fields
		for _, p := range vc.prog.allPkgs {
			if obj, index, _ = types.LookupFieldOrMethod(base.T, true, p, name); obj != nil {
				break
			}
		}
	}
	if _, ok := obj.(*types.Var); !ok {
		panic(unsupported("no field %s in %s", name, base.T))
	}
	cur := base
	for _, fi := range index {
		cur = vc.fieldOf(cur, fi, st)
	}
	return cur
}

// fieldOf selects field fi of a struct value, struct lvalue or pointer.
func (vc *VC) fieldOf(cur Val, fi int, st *State) Val {
	t := cur.T
	if p, ok := t.Underlying().(*types.Pointer); ok {
		t = p.Elem()
		stt := t.Underlying().(*types.Struct)
		ft := stt.Field(fi).Type()
		if isScalarType(ft) {
			comp := vc.regComp(fieldComp(t, fi), sortOfType(ft))
			return Val{K: kindOf(ft), T: ft, S: sx("select", vc.heap(st, comp), cur.S)}
		}
		// nested composite: lvalue (address) with struct/array type
		return Val{K: KStruct, T: ft, S: sx("fld", cur.S, num(int64(fi)))}
	}
	stt, ok := t.Underlying().(*types.Struct)
	if !ok {
		panic(unsupported("field of non-struct %s", t))
	}
	ft := stt.Field(fi).Type()
	if cur.S != "" { // struct lvalue at address cur.S
		if isScalarType(ft) {
			comp := vc.regComp(fieldComp(t, fi), sortOfType(ft))
			return Val{K: kindOf(ft), T: ft, S: sx("select", vc.heap(st, comp), cur.S)}
		}
		return Val{K: KStruct, T: ft, S: sx("fld", cur.S, num(int64(fi)))}
	}
	return cur.Fs[fi]
}

func (vc *VC) evalAddr(e Expr, env *Env, st, old *State) Val {
	v := vc.evalVal(e, env, st, old)
	if v.K == KStruct && v.S != "" {
		return Val{K: KPtr, T: types.NewPointer(v.T), S: v.S}
	}
	if v.K == KPtr {
		return v
	}
	panic(unsupported("address of non-lvalue in contract"))
}

func (vc *VC) indexVal(base, idx Val, st *State) Val {
	switch base.K {
	case KStr:
		return Val{K: KInt, T: types.Typ[types.Uint8], S: sx("s_at", base.S, idx.S)}
	case KArr:
		if base.GT != nil {
			if base.GT.ElemG != nil {
				return Val{K: KArr, S: sx("select", base.S, idx.S), Sort: base.GT.ElemG.sort(), GT: base.GT.ElemG}
			}
			return Val{K: kindOf(base.GT.ElemT), T: base.GT.ElemT, S: sx("select", base.S, idx.S)}
		}
		// ghost array
		inner := strings.TrimSuffix(strings.TrimPrefix(base.Sort, "(Array "), ")")
		parts := strings.SplitN(inner, " ", 2)
		k := KInt
		if len(parts) == 2 && parts[1] == "Bool" {
			k = KBool
		}
		if len(parts) == 2 && parts[1] == "Str" {
			return Val{K: KStr, T: types.Typ[types.String], S: sx("select", base.S, idx.S)}
		}
		return Val{K: k, T: tInt, S: sx("select", base.S, idx.S)}
	case KSlice:
		et := elemTypeOf(base.T)
		a := sliceElemAddr(base.S, idx.S)
		if isScalarType(et) {
			comp := vc.regComp(elemComp(et), sortOfType(et))
			return Val{K: kindOf(et), T: et, S: sx("select", vc.heap(st, comp), a)}
		}
		return Val{K: KStruct, T: et, S: a}
	case KStruct:
		if arr, ok := base.T.Underlying().(*types.Array); ok && base.S != "" {
			et := arr.Elem()
			a := sx("elem", base.S, idx.S)
			if isScalarType(et) {
				comp := vc.regComp(elemComp(et), sortOfType(et))
				return Val{K: kindOf(et), T: et, S: sx("select", vc.heap(st, comp), a)}
			}
			return Val{K: KStruct, T: et, S: a}
		}
	case KPtr:
		if p, ok := base.T.Underlying().(*types.Pointer); ok {
			if arr, ok := p.Elem().Underlying().(*types.Array); ok {
				et := arr.Elem()
				a := sx("elem", base.S, idx.S)
				if isScalarType(et) {
					comp := vc.regComp(elemComp(et), sortOfType(et))
					return Val{K: kindOf(et), T: et, S: sx("select", vc.heap(st, comp), a)}
				}
				return Val{K: KStruct, T: et, S: a}
			}
		}
	case KMap:
		_, _, vals := vc.mapComps(base.T)
		vt := base.T.Underlying().(*types.Map).Elem()
		if isScalarType(vt) {
			return Val{K: kindOf(vt), T: vt, S: sx("select", sx("select", vc.heap(st, vals[0].comp), base.S), idx.S)}
		}
		v := Val{K: KStruct, T: vt}
		for _, lf := range vals {
			v.Fs = append(v.Fs, Val{K: kindOf(lf.t), T: lf.t, S: sx("select", sx("select", vc.heap(st, lf.comp), base.S), idx.S)})
		}
		return v
	}
	panic(unsupported("index of %v", base.T))
}

func (vc *VC) nilOf(v Val) string {
	switch v.K {
	case KSlice:
		return "NILSLICE"
	case KIface, KFunc, KOpaque:
		return "0"
	}
	return "nil"
}

func (vc *VC) eqVals(a, b Val) string {
	// nil literal adapts to the other side
	if _, isNil := a.T.(*types.Basic); isNil && a.T == types.Typ[types.UntypedNil] {
		a, b = b, a
	}
	if b.T == types.Typ[types.UntypedNil] {
		switch a.K {
		case KSlice:
			return eq(sx("sarr", a.S), "nil")
		case KIface, KFunc, KOpaque:
			return eq(a.S, "0")
		default:
			return eq(a.S, "nil")
		}
	}
	if a.K == KStruct || b.K == KStruct {
		panic(unsupported("struct equality in contract"))
	}
	return eq(a.S, b.S)
}

func (vc *VC) evalBinary(x *EBinary, env *Env, st, old *State) Val {
	switch x.Op {
	case "&&":
		return Val{K: KBool, T: tBool, S: and(vc.evalBool(x.X, env, st, old), vc.evalBool(x.Y, env, st, old))}
	case "||":
		return Val{K: KBool, T: tBool, S: or(vc.evalBool(x.X, env, st, old), vc.evalBool(x.Y, env, st, old))}
	case "==>":
		return Val{K: KBool, T: tBool, S: implies(vc.evalBool(x.X, env, st, old), vc.evalBool(x.Y, env, st, old))}
	case "<==>":
		return Val{K: KBool, T: tBool, S: eq(vc.evalBool(x.X, env, st, old), vc.evalBool(x.Y, env, st, old))}
	}
	a := vc.evalVal(x.X, env, st, old)
	b := vc.evalVal(x.Y, env, st, old)
	switch x.Op {
	case "==":
		return Val{K: KBool, T: tBool, S: vc.eqVals(a, b)}
	case "!=":
		return Val{K: KBool, T: tBool, S: not(vc.eqVals(a, b))}
	case "<", "<=", ">", ">=":
		if a.K == KStr {
			switch x.Op {
			case "<":
				return Val{K: KBool, T: tBool, S: sx("s_lt", a.S, b.S)}
			case ">":
				return Val{K: KBool, T: tBool, S: sx("s_lt", b.S, a.S)}
			case "<=":
				return Val{K: KBool, T: tBool, S: not(sx("s_lt", b.S, a.S))}
			default:
				return Val{K: KBool, T: tBool, S: not(sx("s_lt", a.S, b.S))}
			}
		}
		return Val{K: KBool, T: tBool, S: sx(x.Op, a.S, b.S)}
	case "+":
		if a.K == KStr {
			return Val{K: KStr, T: a.T, S: sx("s_cat", a.S, b.S)}
		}
		return Val{K: KInt, T: pickT(a, b), S: sx("+", a.S, b.S)}
	case "-":
		return Val{K: KInt, T: pickT(a, b), S: sx("-", a.S, b.S)}
	case "*":
		return Val{K: KInt, T: pickT(a, b), S: sx("*", a.S, b.S)}
	case "/":
		return Val{K: KInt, T: pickT(a, b), S: sx("div", a.S, b.S)}
	case "%":
		return Val{K: KInt, T: pickT(a, b), S: sx("mod", a.S, b.S)}
	}
	panic(unsupported("binary operator %s in contract", x.Op))
}

func pickT(a, b Val) types.Type {
	if bt, ok := a.T.(*types.Basic); ok && bt.Info()&types.IsUntyped != 0 {
		return b.T
	}
	return a.T
}

func (vc *VC) evalCall(x *ECall, env *Env, st, old *State) Val {
	arg := func(i int) Val { return vc.evalVal(x.Args[i], env, st, old) }
	switch x.Fn {
	case "len":
		a := arg(0)
		switch a.K {
		case KSlice:
			return Val{K: KInt, T: tInt, S: sx("slen", a.S)}
		case KStr:
			return Val{K: KInt, T: tInt, S: sx("s_len", a.S)}
		case KMap:
			comp := vc.regCompFull(mapLenComp(a.T), "(Array Addr Int)")
			return Val{K: KInt, T: tInt, S: ite(eq(a.S, "nil"), "0", sx("select", vc.heap(st, comp), a.S))}
		case KStruct:
			if arr, ok := a.T.Underlying().(*types.Array); ok {
				return Val{K: KInt, T: tInt, S: num(arr.Len())}
			}
		}
		panic(unsupported("len() of %v in contract", a.T))
	case "cap":
		a := arg(0)
		return Val{K: KInt, T: tInt, S: sx("scap", a.S)}
	case "fresh":
		a := arg(0)
		return Val{K: KBool, T: tBool, S: sx(">=", sx("rootOf", vc.addrOf(a)), old.alloc)}
	case "pre": // value in the state just before the instruction of an update/assert site
		if vc.preInstr == nil {
			panic(unsupported("pre() outside an update/assert clause"))
		}
		return vc.evalVal(x.Args[0], env, vc.preInstr, old)
	case "ptrof": // the pointer wrapped in an interface value
		a := arg(0)
		vc.declareRaw("fun:iface_ptr", "(declare-fun iface_ptr (Int) Addr)")
		return Val{K: KPtr, T: types.NewPointer(tInt), S: sx("iface_ptr", a.S)}
	case "live": // refers to memory allocated so far in this state
		a := arg(0)
		return Val{K: KBool, T: tBool, S: sx("<", sx("rootOf", vc.addrOf(a)), st.alloc)}
	case "allocated": // existed before the call/entry
		a := arg(0)
		return Val{K: KBool, T: tBool, S: sx("<", sx("rootOf", vc.addrOf(a)), old.alloc)}
	case "rootOf":
		a := arg(0)
		return Val{K: KInt, T: tInt, S: sx("rootOf", vc.addrOf(a))}
	case "arr": // backing array identity of a slice
		a := arg(0)
		return Val{K: KPtr, T: types.NewPointer(tInt), S: sx("sarr", a.S)}
	case "off":
		a := arg(0)
		return Val{K: KInt, T: tInt, S: sx("soff", a.S)}
	case "subslice":
		a, b := arg(0), arg(1)
		return Val{K: KBool, T: tBool, S: and(sx("wfslice", a.S), eq(sx("sarr", a.S), sx("sarr", b.S)), sx("<=", sx("soff", b.S), sx("soff", a.S)), sx("<=", sx("+", sx("soff", a.S), sx("slen", a.S)), sx("+", sx("soff", b.S), sx("slen", b.S))), not(eq(sx("sarr", a.S), "nil")))}
	case "sliceof":
		a := arg(0)
		if a.Inner == nil {
			panic(unsupported("sliceof: the dynamic value of the interface is not known here"))
		}
		return *a.Inner
	case "strof":
		a := arg(0)
		vc.declareRaw("fun:iface_str", "(declare-fun iface_str (Int) Str)")
		return Val{K: KStr, T: types.Typ[types.String], S: sx("iface_str", a.S)}
	case "intof":
		a := arg(0)
		vc.declareRaw("fun:iface_int", "(declare-fun iface_int (Int) Int)")
		return Val{K: KInt, T: types.Typ[types.Int], S: sx("iface_int", a.S)}
	case "sameslice":
		a, b := arg(0), arg(1)
		return Val{K: KBool, T: tBool, S: eq(a.S, b.S)}
	case "dom":
		m, k := arg(0), arg(1)
		dom, _, _ := vc.mapComps(m.T)
		return Val{K: KBool, T: tBool, S: and(not(eq(m.S, "nil")), sx("select", sx("select", vc.heap(st, dom), m.S), k.S))}
	case "int", "uint64", "uint", "int64", "byte", "uint8", "int32", "uint32", "int8", "int16", "uint16", "rune":
		a := arg(0)
		t := vc.prog.resolveType(x.Fn, env.pkg)
		return vc.convInt(Val{K: KInt, T: a.T, S: a.S}, t)
	case "mathint":
		a := arg(0)
		return Val{K: KInt, T: types.Typ[types.UntypedInt], S: a.S}
	case "unchanged":
		now := vc.evalVal(x.Args[0], env, st, old)
		then := vc.evalVal(x.Args[0], env, old, old)
		return Val{K: KBool, T: tBool, S: vc.eqVals(now, then)}
	case "iff":
		return Val{K: KBool, T: tBool, S: eq(arg(0).S, arg(1).S)}
	}
	if g, ok := vc.prog.contracts.Ghosts[x.Fn]; ok {
		return vc.evalGhost(g, x, env, st, old)
	}
	if sf, ok := vc.prog.contracts.Specs[x.Fn]; ok {
		var args []Val
		for i := range x.Args {
			args = append(args, arg(i))
		}
		return vc.callSpec(sf, args, st, old)
	}
	// type conversion to a named integer type of the package
	if env.pkg != nil {
		if obj, ok := env.pkg.Scope().Lookup(x.Fn).(*types.TypeName); ok && len(x.Args) == 1 {
			a := arg(0)
			if kindOf(obj.Type()) == KInt {
				return vc.convInt(Val{K: KInt, T: a.T, S: a.S}, obj.Type())
			}
		}
	}
	panic(unsupported("unknown function %q in contract", x.Fn))
}

func (vc *VC) addrOf(a Val) string {
	switch a.K {
	case KSlice:
		return sx("sarr", a.S)
	case KPtr, KMap:
		return a.S
	case KStruct:
		if a.S != "" {
			return a.S
		}
	}
	panic(unsupported("value has no address"))
}

func ghostSort(ret string) (string, Kind) {
	switch ret {
	case "int", "":
		return "Int", KInt
	case "bool":
		return "Bool", KBool
	case "[]int":
		return "(Array Int Int)", KArr
	case "[]string":
		return "(Array Int Str)", KArr
	case "string":
		return "Str", KStr
	}
	panic(unsupported("ghost result type %s", ret))
}

func (vc *VC) evalGhost(g *GhostDecl, x *ECall, env *Env, st, old *State) Val {
	srt, k := ghostSort(g.Ret)
	var args []string
	for _, a := range x.Args {
		args = append(args, vc.evalVal(a, env, st, old).S)
	}
	if g.Rigid {
		fn := "G_" + g.Name
		var ps []string
		for _, gp := range g.Params {
			if gp.Type == "addr" {
				ps = append(ps, "Addr")
			} else {
				ps = append(ps, "Int")
			}
		}
		vc.declareRaw("fun:"+fn, fmt.Sprintf("(declare-fun %s (%s) %s)", fn, strings.Join(ps, " "), srt))
		if len(args) == 0 {
			return Val{K: k, T: tInt, S: fn, Sort: srt}
		}
		return Val{K: k, T: tInt, S: sx(fn, args...), Sort: srt}
	}
	comp := "|G:" + g.Name + "|"
	keySort := "Int"
	if len(g.Params) > 0 && g.Params[0].Type == "addr" {
		keySort = "Addr"
	}
	vc.regCompFull(comp, "(Array "+keySort+" "+srt+")")
	return Val{K: k, T: tInt, S: sx("select", vc.heap(st, comp), args[0]), Sort: srt}
}

func (vc *VC) where() string {
	if vc.fn != nil {
		return vc.fn.String()
	}
	return "lemma"
}

func (vc *VC) quantType(name string, pkg *types.Package) (t types.Type) {
	defer func() {
		if r := recover(); r != nil {
			t = vc.localType(name)
		}
	}()
	return vc.prog.resolveType(name, pkg)
}
