package main

import (
	"fmt"
	"go/types"
	"regexp"
	"sort"
	"strings"

	"golang.org/x/tools/go/ssa"
)

type Kind int

const (
	KInt Kind = iota
	KBool
	KStr
	KPtr
	KSlice
	KIface
	KMap
	KStruct
	KTuple
	KFunc
	KArr  // ghost: SMT array Int -> Int
	KIter // range iterator
	KOpaque
)

// Val is a symbolic Go value.
type Val struct {
	K    Kind
	T    types.Type
	S    string // SMT term for scalar kinds
	Heap string // KPtr: non-empty => points to the scalar leaf Heap[S]
	Cell *ssa.Alloc
	Fs   []Val
	Fn   *ssa.Function
	Glob string // provenance: value loaded from this package-level variable
	Sort string // KArr: full SMT sort
	GT    *GT   // KArr: ghost array type
	Inner *Val  // KIface: the concrete value wrapped by MakeInterface (if known)
	Iter *iterInfo
}

type iterInfo struct {
	m       Val
	isStr   bool
	visited string // pseudo-cell name holding visited set
	id      int
}

func kindOf(t types.Type) Kind {
	switch u := t.Underlying().(type) {
	case *types.Basic:
		switch {
		case u.Info()&types.IsBoolean != 0:
			return KBool
		case u.Info()&types.IsString != 0:
			return KStr
		case u.Info()&types.IsInteger != 0:
			return KInt
		case u.Kind() == types.UnsafePointer:
			return KOpaque
		case u.Info()&types.IsFloat != 0:
			return KOpaque
		case u.Kind() == types.UntypedNil:
			return KPtr
		}
		return KOpaque
	case *types.Pointer:
		return KPtr
	case *types.Slice:
		return KSlice
	case *types.Interface:
		return KIface
	case *types.Map:
		return KMap
	case *types.Struct:
		return KStruct
	case *types.Tuple:
		return KTuple
	case *types.Signature:
		return KFunc
	case *types.Chan:
		return KOpaque
	case *types.Array:
		return KStruct // arrays by value are not supported as scalars
	}
	return KOpaque
}

func sortOfKind(k Kind) string {
	switch k {
	case KInt, KIface, KOpaque, KFunc:
		return "Int"
	case KBool:
		return "Bool"
	case KStr:
		return "Str"
	case KPtr, KMap:
		return "Addr"
	case KSlice:
		return "Slice"
	}
	return ""
}

func sortOfType(t types.Type) string { return sortOfKind(kindOf(t)) }

func isScalarType(t types.Type) bool {
	switch kindOf(t) {
	case KStruct, KTuple:
		return false
	}
	return true
}

// intRange returns lo, hi bounds as SMT numerals for integer types.
func intRange(t types.Type) (string, string, bool) {
	b, ok := t.Underlying().(*types.Basic)
	if !ok || b.Info()&types.IsInteger == 0 {
		return "", "", false
	}
	switch b.Kind() {
	case types.Int, types.Int64, types.UntypedInt:
		return "(- 9223372036854775808)", "9223372036854775807", true
	case types.Int8:
		return "(- 128)", "127", true
	case types.Int16:
		return "(- 32768)", "32767", true
	case types.Int32, types.UntypedRune:
		return "(- 2147483648)", "2147483647", true
	case types.Uint, types.Uint64, types.Uintptr:
		return "0", "18446744073709551615", true
	case types.Uint8:
		return "0", "255", true
	case types.Uint16:
		return "0", "65535", true
	case types.Uint32:
		return "0", "4294967295", true
	}
	return "", "", false
}

func isUnsigned(t types.Type) bool {
	b, ok := t.Underlying().(*types.Basic)
	return ok && b.Info()&types.IsUnsigned != 0
}

func intBits(t types.Type) int {
	b, ok := t.Underlying().(*types.Basic)
	if !ok {
		return 64
	}
	switch b.Kind() {
	case types.Int8, types.Uint8:
		return 8
	case types.Int16, types.Uint16:
		return 16
	case types.Int32, types.Uint32:
		return 32
	}
	return 64
}

func pow2(n int) string {
	switch n {
	case 8:
		return "256"
	case 16:
		return "65536"
	case 32:
		return "4294967296"
	case 64:
		return "18446744073709551616"
	case 7:
		return "128"
	case 15:
		return "32768"
	case 31:
		return "2147483648"
	case 63:
		return "9223372036854775808"
	}
	panic("pow2")
}

// ---------- naming of heap components ----------

func qual(p *types.Package) string {
	if p == nil {
		return ""
	}
	return p.Name()
}

var canonRe = regexp.MustCompile(`\b(byte|rune|any)\b`)

func typeName(t types.Type) string {
	s := types.TypeString(t, qual)
	return canonRe.ReplaceAllStringFunc(s, func(m string) string {
		switch m {
		case "byte":
			return "uint8"
		case "rune":
			return "int32"
		}
		return "interface{}"
	})
}

// fieldComp is the heap component holding field i of struct type t.
func fieldComp(t types.Type, i int) string {
	st := t.Underlying().(*types.Struct)
	return "|H:" + typeName(t) + "." + st.Field(i).Name() + "|"
}

// elemComp is the heap component holding scalars of type t stored in array
// elements or in escaping local cells.
func elemComp(t types.Type) string {
	if b, ok := t.(*types.Basic); ok {
		return "|E:" + types.Typ[b.Kind()].Name() + "|"
	}
	return "|E:" + typeName(types.Default(t)) + "|"
}

func mapDomComp(t types.Type) string { return "|MD:" + typeName(t) + "|" }
func mapValComp(t types.Type) string { return "|MV:" + typeName(t) + "|" }
func mapLenComp(t types.Type) string { return "|ML:" + typeName(t) + "|" }

// State is the symbolic store at a program point.
type State struct {
	cells  map[*ssa.Alloc]Val
	heaps  map[string]string
	pseudo map[string]string // pseudo cells (visited sets...), name -> term
	alloc  string
}

func (s *State) clone() *State {
	n := &State{cells: make(map[*ssa.Alloc]Val, len(s.cells)), heaps: make(map[string]string, len(s.heaps)), pseudo: make(map[string]string, len(s.pseudo)), alloc: s.alloc}
	for k, v := range s.cells {
		n.cells[k] = v
	}
	for k, v := range s.heaps {
		n.heaps[k] = v
	}
	for k, v := range s.pseudo {
		n.pseudo[k] = v
	}
	return n
}

func sortedKeys(m map[string]string) []string {
	var ks []string
	for k := range m {
		ks = append(ks, k)
	}
	sort.Strings(ks)
	return ks
}

// ---------- value helpers bound to a VC ----------

func (vc *VC) compSort(name string) string {
	if s, ok := vc.compSorts[name]; ok {
		return s
	}
	panic("unknown component sort " + name)
}

// regComp records a component and its full array sort.
func (vc *VC) regComp(name, valSort string) string {
	full := "(Array Addr " + valSort + ")"
	if old, ok := vc.compSorts[name]; ok {
		if old != full {
			panic(fmt.Sprintf("component %s sort clash %s vs %s", name, old, full))
		}
		return name
	}
	vc.compSorts[name] = full
	return name
}

func (vc *VC) regCompFull(name, full string) string {
	if _, ok := vc.compSorts[name]; !ok {
		vc.compSorts[name] = full
	}
	return name
}

// entryHeap returns the name of the entry version of a component.
func (vc *VC) entryHeap(name string) string {
	c := strings.TrimSuffix(name, "|") + "@0|"
	if !vc.declSet[c] {
		vc.declare(c, vc.compSort(name))
		if cl := closureFact(c, vc.compSort(name), "|alloc@0|"); cl != "" {
			vc.global(cl)
		}
	}
	return c
}

// closureFact states heap closure for a pointer- or slice-valued component:
// everything stored in it refers to memory allocated before the given
// allocation counter (Go memory safety), and stored slices are well formed.
func closureFact(c, sort, alloc string) string {
	switch sort {
	case "(Array Addr Addr)":
		return fmt.Sprintf("(forall ((a! Addr)) (! (< (rootOf (select %s a!)) %s) :pattern ((select %s a!))))", c, alloc, c)
	case "(Array Addr Slice)":
		return fmt.Sprintf("(forall ((a! Addr)) (! (and (wfslice (select %s a!)) (< (rootOf (sarr (select %s a!))) %s)) :pattern ((select %s a!))))", c, c, alloc, c)
	}
	return ""
}

func (vc *VC) heap(st *State, name string) string {
	if vc.specRecorder != nil && st.alloc == "|p:alloc|" {
		return vc.specRecorder(name)
	}
	if h, ok := st.heaps[name]; ok {
		return h
	}
	return vc.entryHeap(name)
}

func (vc *VC) setHeap(st *State, name, term string) {
	c := vc.fresh(strings.Trim(name, "|"), vc.compSort(name))
	vc.define(c, term)
	st.heaps[name] = c
	vc.touched[name] = true
}

// zero value of a type
func (vc *VC) zero(t types.Type) Val {
	k := kindOf(t)
	v := Val{K: k, T: t}
	switch k {
	case KInt, KIface, KOpaque, KFunc:
		v.S = "0"
	case KBool:
		v.S = "false"
	case KStr:
		v.S = "s_empty"
	case KPtr, KMap:
		v.S = "nil"
	case KSlice:
		v.S = "(mk-slice nil 0 0 0)"
	case KStruct:
		if st, ok := t.Underlying().(*types.Struct); ok {
			for i := 0; i < st.NumFields(); i++ {
				v.Fs = append(v.Fs, vc.zero(st.Field(i).Type()))
			}
		}
	}
	return v
}

// freshVal creates an unconstrained value of a type (fresh constants).
func (vc *VC) freshVal(prefix string, t types.Type) Val {
	k := kindOf(t)
	v := Val{K: k, T: t}
	switch k {
	case KStruct:
		if st, ok := t.Underlying().(*types.Struct); ok {
			for i := 0; i < st.NumFields(); i++ {
				v.Fs = append(v.Fs, vc.freshVal(prefix+"."+st.Field(i).Name(), st.Field(i).Type()))
			}
			return v
		}
		panic("freshVal of array type " + t.String())
	case KTuple:
		tp := t.(*types.Tuple)
		for i := 0; i < tp.Len(); i++ {
			v.Fs = append(v.Fs, vc.freshVal(fmt.Sprintf("%s#%d", prefix, i), tp.At(i).Type()))
		}
		return v
	}
	v.S = vc.fresh(prefix, sortOfKind(k))
	return v
}

// typeAssume returns the typing assumptions on a (scalar) value.
func (vc *VC) typeAssume(v Val, alloc string) string {
	switch v.K {
	case KInt:
		if lo, hi, ok := intRange(v.T); ok {
			return and(sx("<=", lo, v.S), sx("<=", v.S, hi))
		}
	case KSlice:
		return and(sx("wfslice", v.S), sx("<", sx("rootOf", sx("sarr", v.S)), alloc))
	case KPtr, KMap:
		if v.Heap == "" && v.Cell == nil {
			return sx("<", sx("rootOf", v.S), alloc)
		}
	case KIface:
		return sx("<=", "0", v.S)
	case KStruct, KTuple:
		var parts []string
		for _, f := range v.Fs {
			parts = append(parts, vc.typeAssume(f, alloc))
		}
		return and(parts...)
	}
	return "true"
}

// loadAt loads a value of type t located at address term a.
func (vc *VC) loadAt(st *State, t types.Type, a string, scalarHeap string) Val {
	k := kindOf(t)
	if k == KStruct {
		stt, ok := t.Underlying().(*types.Struct)
		if !ok {
			panic("load of array value not supported: " + t.String())
		}
		v := Val{K: KStruct, T: t}
		for i := 0; i < stt.NumFields(); i++ {
			ft := stt.Field(i).Type()
			if isScalarType(ft) {
				comp := vc.regComp(fieldComp(t, i), sortOfType(ft))
				fv := Val{K: kindOf(ft), T: ft, S: sx("select", vc.heap(st, comp), a)}
				v.Fs = append(v.Fs, fv)
			} else if _, isArr := ft.Underlying().(*types.Array); isArr {
				v.Fs = append(v.Fs, Val{K: KOpaque, T: ft, S: "0"})
			} else {
				v.Fs = append(v.Fs, vc.loadAt(st, ft, sx("fld", a, num(int64(i))), ""))
			}
		}
		return v
	}
	if scalarHeap == "" {
		panic("scalar load without heap for " + t.String())
	}
	vc.regComp(scalarHeap, sortOfKind(k))
	return Val{K: k, T: t, S: sx("select", vc.heap(st, scalarHeap), a)}
}

// storeAt stores v (of type t) at address a.
func (vc *VC) storeAt(st *State, t types.Type, a string, scalarHeap string, v Val) {
	k := kindOf(t)
	if k == KStruct {
		stt, ok := t.Underlying().(*types.Struct)
		if !ok {
			panic("store of array value not supported: " + t.String())
		}
		for i := 0; i < stt.NumFields(); i++ {
			ft := stt.Field(i).Type()
			if isScalarType(ft) {
				comp := vc.regComp(fieldComp(t, i), sortOfType(ft))
				vc.setHeap(st, comp, sx("store", vc.heap(st, comp), a, vc.coerce(v.Fs[i], ft)))
			} else if _, isArr := ft.Underlying().(*types.Array); isArr {
				continue
			} else {
				vc.storeAt(st, ft, sx("fld", a, num(int64(i))), "", v.Fs[i])
			}
		}
		return
	}
	vc.regComp(scalarHeap, sortOfKind(k))
	vc.setHeap(st, scalarHeap, sx("store", vc.heap(st, scalarHeap), a, vc.coerce(v, t)))
}

// coerce returns the SMT term of v at the sort of type t.
func (vc *VC) coerce(v Val, t types.Type) string {
	if v.Heap != "" || v.Cell != nil {
		panic(unsupported("pointer to scalar location escapes"))
	}
	return v.S
}

type unsupportedErr struct{ msg string }

func (u unsupportedErr) Error() string { return "unsupported: " + u.msg }
func unsupported(format string, args ...interface{}) unsupportedErr {
	return unsupportedErr{fmt.Sprintf(format, args...)}
}

// compsOfType lists all leaf components reachable by value from a struct type
// (used for zero-initialisation and struct copies).
func elemTypeOf(t types.Type) types.Type {
	switch u := t.Underlying().(type) {
	case *types.Slice:
		return u.Elem()
	case *types.Array:
		return u.Elem()
	case *types.Pointer:
		return elemTypeOf(u.Elem())
	}
	if b, ok := t.Underlying().(*types.Basic); ok && b.Info()&types.IsString != 0 {
		return types.Typ[types.Uint8]
	}
	panic("elemTypeOf " + t.String())
}

// elemAddr gives the address of element i of a slice value (SMT term).
func sliceElemAddr(s, i string) string {
	return sx("idx", s, i)
}

// GT describes the type of a ghost array: key type and element (either a Go
// type or a nested ghost array).
type GT struct {
	Key   types.Type
	ElemT types.Type
	ElemG *GT
}

func (g *GT) sort() string {
	es := ""
	if g.ElemG != nil {
		es = g.ElemG.sort()
	} else {
		es = sortOfType(g.ElemT)
	}
	return "(Array " + sortOfType(g.Key) + " " + es + ")"
}
