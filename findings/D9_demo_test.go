package stack

import (
	"bytes"
	"io"
	"testing"
)

// D9: on the tree before commit 5232117 the first path makes ScanSnapshot panic
// (slice bounds out of range [:-2]) and the second records RemoteGOROOT "/".
func TestD9(t *testing.T) {
	for _, p := range []string{"/x/fmt/print.go", "/abcd/fmt/print.go"} {
		in := "goroutine 1 [running]:\nmain.main()\n\t" + p + ":12 +0x1\n\n"
		s, _, err := ScanSnapshot(bytes.NewBufferString(in), io.Discard, DefaultOpts())
		if err != nil && err != io.EOF {
			t.Fatal(err)
		}
		if s != nil && s.RemoteGOROOT == "/" {
			t.Errorf("%s: RemoteGOROOT %q is not a root followed by /src", p, s.RemoteGOROOT)
		}
	}
}
