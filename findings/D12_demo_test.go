package stack

import (
	"sync"
	"testing"
)

// D12: Args.String appends "..." to a.Processed itself; when Processed has
// spare capacity (it is built with append by the source augmentation) the
// append writes into the snapshot's own backing array, so rendering mutates
// the snapshot and two concurrent renderings race on that slot.
func TestD12(t *testing.T) {
	p := make([]string, 0, 4)
	p = append(p, "a", "b", "c")
	a := Args{Processed: p, Elided: true}
	before := p[:4][3]
	var wg sync.WaitGroup
	for i := 0; i < 8; i++ {
		wg.Add(1)
		go func() {
			defer wg.Done()
			for j := 0; j < 1000; j++ {
				if s := a.String(); s != "a, b, c, ..." {
					t.Errorf("got %q", s)
				}
			}
		}()
	}
	wg.Wait()
	if after := p[:4][3]; after != before {
		t.Errorf("rendering wrote %q into the snapshot's Processed array (spare slot was %q)", after, before)
	}
}
