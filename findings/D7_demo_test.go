package stack

import "testing"

func TestD7(t *testing.T) {
	seen := map[string]bool{}
	for i := 0; i < 200; i++ {
		c := Call{RemoteSrcPath: "/a/src/x/src/foo.go"}
		c.updateLocations("", "", nil, map[string]string{"/a": "/l2", "/a/src/x": "/l1"})
		seen[c.LocalSrcPath] = true
		m := Call{RemoteSrcPath: "/m/sub/x.go"}
		m.updateLocations("", "", map[string]string{"/m": "mod", "/m/sub": "mod/sub"}, nil)
		seen[m.ImportPath+"|"+m.RelSrcPath] = true
	}
	if len(seen) != 2 {
		t.Fatalf("nondeterministic: %v", seen)
	}
}
