package stack

import (
	"bytes"
	"strings"
	"testing"
)

// D13 (C10, literal reading): a stream cut inside the first goroutine header
// forwards the fragment, which the uncut stream withholds as part of the dump.
func TestD13(t *testing.T) {
	full := "text\n\ngoroutine 1 [running]:\nmain.main()\n\t/a/b.go:1 +0x1\n\nafter\n"
	var fw bytes.Buffer
	_, _, _ = ScanSnapshot(strings.NewReader(full), &fw, DefaultOpts())
	uncut := fw.String()
	for cut := 0; cut <= len(full); cut++ {
		var w bytes.Buffer
		_, _, _ = ScanSnapshot(strings.NewReader(full[:cut]), &w, DefaultOpts())
		if !strings.HasPrefix(uncut, w.String()) {
			t.Errorf("cut at %d: forwarded %q is not a prefix of %q", cut, w.String(), uncut)
		}
	}
}
